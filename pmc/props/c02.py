"""C02 - decode then encode reproduces the layout that was written.

Space: well-formed trees (precondition decided by the reference:
pmc.ref.interp.well_formed_tree) x model families.
Oracle: configure(interpret(t, m), model=m) == t with empty concept slots
dropped, metadata kept; and encode(decode(format(t))) == format(t').
"""

from pmc.domains import models as M
from pmc.domains import trees as T
from pmc.ref import interp as RI

ID = 'C02'
TITLE = 'Decode then encode reproduces the layout that was written'

T.ALPHABETS['c02roles'] = {
    'concepts': [T.ABSENT, 'x', 'a'],
    'roles': [':ARG0', ':ARG0-of~1', ':consist-of', ':consist-of-of', ':mod-of'],
    'atoms': ['k', '"s"~2'],
    'refs': 'all+aligned0',
}
T.ALPHABETS['c02tiny'] = {
    'concepts': [T.ABSENT, 'x', 'a'],
    'roles': [':a', ':a-of', ':a-of-of', ':b', ':b-of', ':c1', ':c1-of'],
    'atoms': ['k'],
    'refs': 'all',
}

RULE = ('every decoration of every tree shape within the bounds, filtered by the well-formedness precondition of the '
        'property (decided by the reference interpretation); non-trivial = well-formed under the model and at least one relation')
ASSUMPTIONS = [
    'trees with a literal ":instance" role and ill-formed trees (duplicate definitions, duplicate triples, non-canonical inversions, inverted self-loops) are outside the statement',
    'small-scope hypothesis beyond the stated (nodes, branches, depth) bounds and alphabets',
]

METADATA = {'snt': 'x ; ( y', 'id': '1', 'Z': ''}     # not in alphabetical order: the order written is part of the layout
HEADER = '# ::snt x ; ( y\n# ::id 1\n# ::Z\n'


def _tiny_names():
    return [n for n in M.TINY if not M.spec(n)['normalizations']]


def shards(tier, seed):
    out = []
    q = tier == 'quick'
    out += T.shard_list(3, 2, 3, 'wide', extra={'sub': 'wide', 'models': ['DEFAULT', 'NOOP', 'AMR'], 'bounds': 'TREE(3,2,3) wide x DEFAULT,NOOP,AMR'})
    if q:
        out += T.shard_list(3, 3, 3, 'mid', extra={'sub': 'mid', 'models': ['DEFAULT', 'AMR', 'NOOP', 'MINI'], 'bounds': 'TREE(3,3,3) mid x 4 models'})
        out += T.shard_list(4, 4, 3, 'narrow', extra={'sub': 'narrow', 'models': ['DEFAULT', 'NOOP'], 'bounds': 'TREE(4,4,3) narrow x DEFAULT,NOOP'})
        out += T.shard_list(3, 3, 3, 'c02roles', extra={'sub': 'modelroles', 'models': ['AMR', 'MINI'], 'bounds': 'TREE(3,3,3) model roles x AMR,MINI'})
        out += T.shard_list(2, 2, 2, 'c02tiny', extra={'sub': 'tiny', 'models': _tiny_names(), 'bounds': 'TREE(2,2,2) x 16 TINY role tables'})
    else:
        out += T.shard_list(3, 4, 3, 'mid', pin=3, extra={'sub': 'mid', 'models': ['DEFAULT', 'AMR', 'NOOP', 'MINI'], 'bounds': 'TREE(3,4,3) mid x 4 models'})
        out += T.shard_list(4, 5, 4, 'narrow', pin=3, extra={'sub': 'narrow', 'models': ['DEFAULT', 'NOOP'], 'bounds': 'TREE(4,5,4) narrow x DEFAULT,NOOP'})
        out += T.shard_list(3, 4, 3, 'c02roles', pin=3, extra={'sub': 'modelroles', 'models': ['AMR', 'MINI'], 'bounds': 'TREE(3,4,3) model roles x AMR,MINI'})
        out += T.shard_list(3, 3, 3, 'c02tiny', extra={'sub': 'tiny', 'models': _tiny_names(), 'bounds': 'TREE(3,3,3) x 16 TINY role tables'})
    return out


def cases(shard):
    ms = shard['models']
    for t in T.shard_trees(shard):
        yield {'t': t, 'models': ms}


def drop_empty_concepts(node):
    var, branches = node
    out = []
    for role, tgt in branches:
        if role == '/' and tgt is None:
            continue
        if not RI.is_atomic(tgt):
            tgt = drop_empty_concepts(tgt)
        out.append((role, tgt))
    return (var, out)


def check(case, ctx):
    import penman
    from penman import layout
    from penman.tree import Tree
    t = T.totuple(case['t'])
    any_wf = False
    for name in case['models']:
        pm, rm = M.get(name)
        if not RI.well_formed_tree(t, rm):
            ctx.cats['not_well_formed'] += 1
            continue
        any_wf = True
        want = drop_empty_concepts(t)
        try:
            g = layout.interpret(Tree(t, metadata=dict(METADATA)), pm)
            t2 = layout.configure(g, model=pm)
        except Exception as e:      # noqa: BLE001
            ctx.fail(f'interpret/configure raised {type(e).__name__} under {name}', observed=str(e)[:200])
            return
        ctx.transitions += 1
        ctx.validated += 1     # the expected tree (input minus empty concept slots) is the prediction
        if t2.node != want:
            ctx.fail(f'configure(interpret(t)) is not t under {name}', expected=want, observed=t2.node,
                     repro=f'import penman; from penman.tree import Tree; t=Tree({t!r}); print(penman.configure(penman.interpret(t, M), model=M))  # M = model {name}')
            return
        if dict(t2.metadata) != METADATA or list(t2.metadata) != list(METADATA):
            ctx.fail(f'metadata not kept under {name}', expected=METADATA, observed=dict(t2.metadata))
            return
        # text level
        s = HEADER + penman.format(Tree(t), indent=None)
        try:
            s2 = penman.encode(penman.decode(s, model=pm), model=pm, indent=None)
        except Exception as e:      # noqa: BLE001
            ctx.fail(f'encode(decode(s)) raised {type(e).__name__} under {name}', observed=str(e)[:200], expected=s)
            return
        ctx.transitions += 1
        s_want = HEADER + penman.format(Tree(want), indent=None)
        if s2 != s_want:
            ctx.fail(f'encode(decode(s)) is not the normal-form text of s under {name}', expected=s_want, observed=s2)
            return
    if any_wf and any(role != '/' for role, _ in t[1]):
        ctx.nontrivial += 1
        ctx.outcome(repr(t))
