"""C17 - calls are pure and deterministic.

Sub-checks (DESIGN.md section 4 C17):
  purity     every non-in-place call of the battery x every corpus argument: deep, order-preserving
             snapshot of all arguments before == after; then every documented in-place operation
             is applied to the *result* and the arguments must still equal the snapshot
  history    all ordered pairs (thorough: also triples) of battery calls - on shared argument
             objects when the corpus entry is the same - : the last call's result equals the
             result of that call alone in a fresh interpreter (baseline from a sub-process)
  streams    all interleavings of next() on 2-3 lazy iterdecode / iterparse generators
  processes  every (producer, consumer) in {parent, fork worker, spawn worker}^2 for three
             pipelines; graphs travel by pickle; result equals the single-process result
  hashseeds  the whole battery plus CLI runs as sub-processes under PYTHONHASHSEED = 0, 1, 2, ...
             until every permutation of each 3-element probe set has been witnessed
"""

import itertools
import json
import os
import subprocess
import sys
import tempfile

from pmc.engine.core import REPO, VERIF
from pmc.props import c17_battery as B

ID = 'C17'
TITLE = 'Calls are pure and deterministic'
RULE = ('complete product of battery calls x corpus arguments (purity), of ordered call pairs (history), of interleavings (streams), of process '
        'pairs x pipelines (processes); hash seeds consumed in order until all permutations of the probe sets are seen')
ASSUMPTIONS = [
    'the argument corpus is fixed (12 decoded texts + 2 marker-less graphs chosen to take every anchored path); calls are the fixed battery of pmc/props/c17_battery.py',
    'results are compared in an order-preserving canonical form (dict key order and list order are observable; sets are compared as sets)',
    '"all hash seeds" is approximated by all permutations of 3-element probe sets (strings, triples); the number of seeds needed is reported',
    'client code mutating marker lists of a result directly is not an API operation and is not asserted',
]

_BASE = None
_TMP = []


def _fresh_battery(seed='0', extra=None):
    env = dict(os.environ)
    if extra:
        env.update(extra)
    env['PYTHONHASHSEED'] = str(seed)
    env['VERIF_REPO'] = REPO
    env['PYTHONPATH'] = VERIF
    r = subprocess.run([sys.executable, '-m', 'pmc.props.c17_battery'], capture_output=True, text=True, env=env, cwd=VERIF, timeout=300)
    return r


def shards(tier, seed):
    global _BASE
    out = []
    # baseline: every (call, argument) of the battery computed in its own forked child of a fresh interpreter
    r = _fresh_battery('0', {'BATTERY_MODE': 'isolated'})
    if r.returncode != 0:
        raise RuntimeError('battery failed in a fresh interpreter: ' + r.stderr[-500:])
    rf = _fresh_battery('0')
    fd3, path3 = tempfile.mkstemp(prefix='pmc_c17_fwd_', suffix='.json')
    with os.fdopen(fd3, 'w') as fh:
        fh.write(rf.stdout.splitlines()[0] if rf.returncode == 0 and rf.stdout else '{}')
    _TMP.append(path3)
    rr = _fresh_battery('0', {'BATTERY_ORDER': 'rev'})
    fd2, path2 = tempfile.mkstemp(prefix='pmc_c17_rev_', suffix='.json')
    with os.fdopen(fd2, 'w') as fh:
        fh.write(rr.stdout.splitlines()[0] if rr.returncode == 0 and rr.stdout else '{}')
    _TMP.append(path2)
    fd, path = tempfile.mkstemp(prefix='pmc_c17_base_', suffix='.json')
    with os.fdopen(fd, 'w') as fh:
        fh.write(r.stdout.splitlines()[0])
    _BASE = path
    anames = list(B.CORPUS) + list(B.MARKERLESS)
    out.append({'sub': 'order', 'base': path, 'fwd': path3, 'rev': path2, 'bounds': 'every (call, argument) in its own forked child vs. the whole battery in one interpreter, forward and in reverse order: identical'})
    for a in anames:
        out.append({'sub': 'purity', 'arg': a, 'bounds': f'{len(B.calls())} calls x {len(anames)} arguments, in-place operations applied to every result'})
    for a1 in anames:
        for a2 in anames:
            out.append({'sub': 'history', 'a1': a1, 'a2': a2, 'base': path, 'depth': 2,
                        'bounds': 'all ordered pairs of (call, argument); quick adds triples on one VERIF_SEED-chosen argument, thorough on all (same-argument triples)'})
    tri = anames if tier != 'quick' else [anames[seed % len(anames)]]
    for a in tri:
        for c1 in B.calls():
            out.append({'sub': 'history', 'a1': a, 'a2': a, 'c1': c1, 'base': path, 'depth': 3, 'bounds': ''})
    for api in ('iterdecode', 'iterparse'):
        for cont in ('str', 'lines'):
            for idx in ([0, 1], [1, 2], [0, 1, 2]):
                for first in idx:
                    out.append({'sub': 'streams', 'api': api, 'cont': cont, 'idx': idx, 'first': first,
                                'bounds': 'all interleavings of 2 and 3 generators over 2-3 graphs each, iterdecode and iterparse, str and list input'})
    for pipe in ('decode_encode', 'decode_transform_encode', 'decode_reconfigure'):
        out.append({'sub': 'processes', 'pipe': pipe, 'bounds': '3 pipelines x {parent, fork, spawn}^2 x 12 texts'})
    cap = 64 if tier == 'quick' else 512
    for k in range(0, cap, 8):
        out.append({'sub': 'hashseeds', 'lo': k, 'hi': min(k + 8, cap), 'base': path, 'bounds': f'PYTHONHASHSEED 0..{cap - 1} (cap), battery + CLI output byte-identical'})
    return out


def teardown():
    for p in [_BASE] + _TMP:
        if p and os.path.exists(p):
            os.unlink(p)


def cases(shard):
    sub = shard['sub']
    C = B.calls()
    if sub == 'order':
        iso = json.load(open(shard['base']))
        fwd = json.load(open(shard['fwd']))
        rev = json.load(open(shard['rev']))
        for k in sorted(set(fwd) | set(rev) | set(iso)):
            if not k.startswith('cli'):
                yield {'key': k, 'iso': iso.get(k), 'fwd': fwd.get(k), 'rev': rev.get(k)}
        return
    if sub == 'purity':
        for c, (needs, fn) in C.items():
            if B.applicable(c, needs, shard['arg']):
                yield {'call': c, 'arg': shard['arg']}
    elif sub == 'history':
        a1, a2 = shard['a1'], shard['a2']
        c1s = [shard['c1']] if 'c1' in shard else list(C)
        for c1 in c1s:
            if not B.applicable(c1, C[c1][0], a1):
                continue
            for c2 in C:
                if not B.applicable(c2, C[c2][0], a2):
                    continue
                if shard['depth'] == 2:
                    yield {'seq': [[c1, a1], [c2, a2]], 'base': shard['base']}
                else:
                    for c3 in C:
                        if B.applicable(c3, C[c3][0], a2):
                            yield {'seq': [[c1, a1], [c2, a2], [c3, a2]], 'base': shard['base']}
    elif sub == 'streams':
        texts = [B.CORPUS['plain'] + '\n\n' + B.CORPUS['aligned'] + '\n' + B.CORPUS['meta'],
                 B.CORPUS['deep'] + '\n' + B.CORPUS['strings'],
                 B.CORPUS['cycle'] + ' ' + B.CORPUS['single'] + '\n' + B.CORPUS['ops']]
        counts = [3, 2, 3]
        api, cont, idx = shard['api'], shard['cont'], shard['idx']
        # one extra next() per stream to reach StopIteration
        pool = []
        for i in idx:
            pool += [i] * (counts[i] + 1)
        for sched in _multiset_perms(pool):
            if sched[0] == shard['first']:
                yield {'api': api, 'cont': cont, 'texts': [texts[i] for i in idx], 'idx': idx, 'sched': list(sched)}
    elif sub == 'processes':
        for name in B.CORPUS:
            for prod in ('parent', 'fork', 'spawn'):
                for cons in ('parent', 'fork', 'spawn'):
                    yield {'pipe': shard['pipe'], 'arg': name, 'prod': prod, 'cons': cons}
    else:
        for k in range(shard['lo'], shard['hi']):
            yield {'seed': k, 'base': shard['base']}


def _multiset_perms(items):
    """All distinct orderings of a multiset, in lexicographic order."""
    counts = {}
    for x in items:
        counts[x] = counts.get(x, 0) + 1
    keys = sorted(counts)
    n = len(items)

    def rec(prefix):
        if len(prefix) == n:
            yield tuple(prefix)
            return
        for k in keys:
            if counts[k]:
                counts[k] -= 1
                prefix.append(k)
                yield from rec(prefix)
                prefix.pop()
                counts[k] += 1
    yield from rec([])


_base_cache = {}


def _baseline(path):
    if path not in _base_cache:
        if not os.path.exists(path):
            # replay after the run: recompute
            r = _fresh_battery('0')
            _base_cache[path] = json.loads(r.stdout.splitlines()[0])
        else:
            _base_cache[path] = json.load(open(path))
    return _base_cache[path]


def _inplace_ops(result, args):
    """Apply every documented in-place API operation to a result (a 'new object')."""
    from penman import layout
    from penman.graph import Graph
    from penman.model import Model
    from penman.tree import Tree
    rs = result if isinstance(result, list) else [result]
    for r in rs:
        if isinstance(r, Tree):
            layout.rearrange(r, key=Model().canonical_order, attributes_first=True)
            r.reset_variables('z{i}')
        elif isinstance(r, Graph):
            other = Graph([('zz', ':instance', 'Z'), ('zz', ':r', 'a')])
            r |= other
            if r.triples:
                r -= Graph(r.triples[:2])
            try:
                r.top = sorted(r.variables())[-1] if r.variables() else None
            except Exception:       # noqa: BLE001
                pass
            r.metadata['touched'] = '1'


def check(case, ctx):
    sub = ctx.sub
    if sub == 'order':
        ctx.transitions += 1
        if case['fwd'] != case['iso'] or case['rev'] != case['iso']:
            bad = case['fwd'] if case['fwd'] != case['iso'] else case['rev']
            ctx.fail(f'result of {case["key"]} depends on which calls were made before it in the same interpreter (isolated vs. whole battery forward / in reverse order)',
                     expected=case['iso'], observed=bad)
        else:
            ctx.nontrivial += 1
        return
    if sub == 'purity':
        _check_purity(case, ctx)
    elif sub == 'history':
        _check_history(case, ctx)
    elif sub == 'streams':
        _check_streams(case, ctx)
    elif sub == 'processes':
        _check_processes(case, ctx)
    else:
        _check_seed(case, ctx)


def _check_purity(case, ctx):
    from penman.exceptions import PenmanError
    from penman.models.amr import model as amr
    C = B.calls()
    needs, fn = C[case['call']]
    a = B.build(case['arg'])
    before = B.snapshot(a)
    try:
        r = fn(a, amr)
    except PenmanError:
        r = None
    ctx.transitions += 1
    after = B.snapshot(a)
    if after != before:
        ctx.fail(f'{case["call"]} changed its argument', expected=before, observed=after)
        return
    if isinstance(r, dict) and 'selfcheck' in r:
        got, ref = (B.canonical(x) for x in r['selfcheck'])
        if got != ref:
            ctx.fail(f'{case["call"]}: the result of a chain of calls differs from the same queries on an identical, freshly built object', expected=ref, observed=got)
            return
        r = None
    if r is not None:
        _inplace_ops(r, a)
        after = B.snapshot(a)
        if after != before:
            ctx.fail(f'in-place operations on the result of {case["call"]} changed the argument it was computed from (the result is a view, not a new object)', expected=before, observed=after)
            return
    ctx.nontrivial += 1


def _check_history(case, ctx):
    from penman.models.amr import model as amr
    base = _baseline(case['base'])
    C = B.calls()
    seq = case['seq']
    built = {}
    last = None
    from penman.exceptions import PenmanError
    for k, (cname, aname) in enumerate(seq):
        if aname not in built:
            built[aname] = B.build(aname)
        if k < len(seq) - 1:
            # the client owns its results: it may use every documented in-place operation on them
            try:
                raw = C[cname][1](built[aname], amr)
                if not (isinstance(raw, dict) and 'selfcheck' in raw):
                    _inplace_ops(raw, built[aname])
            except PenmanError:
                pass
        else:
            last = B.invoke(C[cname][1], built[aname], amr)
        ctx.transitions += 1
    # between calls a client may use its results in place (documented in-place operations on the result objects)
    cname, aname = seq[-1]
    want = base[f'{cname}@{aname}']
    ctx.validated += 1
    if json.loads(json.dumps(last)) != want:
        ctx.fail(f'result of {cname}({aname}) after {seq[:-1]} differs from its result in a fresh interpreter', expected=want, observed=last)
        return
    ctx.nontrivial += 1


def _check_streams(case, ctx):
    import penman
    api = getattr(penman, case['api'])

    def src(text):
        return text if case['cont'] == 'str' else text.split('\n')

    def render(x):
        return B.canonical(x)
    want = [[render(x) for x in api(src(t))] for t in case['texts']]
    gens = [api(src(t)) for t in case['texts']]
    got = [[] for _ in gens]
    done = [False] * len(gens)
    pos = {i: k for k, i in enumerate(case['idx'])}
    for i in case['sched']:
        k = pos[i]
        if done[k]:
            continue
        try:
            got[k].append(render(next(gens[k])))
        except StopIteration:
            done[k] = True
        ctx.transitions += 1
    if got != want:
        ctx.fail('interleaving next() on several lazy streams changed what a stream yields', expected=want, observed=got)
        return
    ctx.nontrivial += 1


# ---- processes

def _w_decode(args):
    name, = args
    import penman
    from penman.models.amr import model
    return penman.decode(B.CORPUS[name], model=model)


def _w_consume(args):
    pipe, g = args
    import penman
    from penman import layout, transform
    from penman.models.amr import model
    if pipe == 'decode_encode':
        return penman.encode(g, model=model)
    if pipe == 'decode_transform_encode':
        return penman.encode(transform.reify_attributes(transform.reify_edges(g, model)), model=model) + '\n' + \
            repr(layout.node_contexts(g)) + repr([layout.appears_inverted(g, t) for t in g.triples])
    return penman.format(layout.reconfigure(g, model=model, key=model.canonical_order))


_pools = {}


def _pool(kind):
    import multiprocessing
    from pmc.engine.core import _init_worker
    if kind not in _pools:
        _pools[kind] = multiprocessing.get_context(kind).Pool(1, initializer=_init_worker)
    return _pools[kind]


def _run(where, fn, args):
    if where == 'parent':
        import pickle
        return pickle.loads(pickle.dumps(fn(args)))
    return _pool(where).apply(fn, (args,))


def _check_processes(case, ctx):
    want = _w_consume((case['pipe'], _w_decode((case['arg'],))))
    g = _run(case['prod'], _w_decode, (case['arg'],))
    got = _run(case['cons'], _w_consume, (case['pipe'], g))
    ctx.transitions += 2
    if got != want:
        ctx.fail(f'{case["pipe"]}: producer in {case["prod"]}, consumer in {case["cons"]} gives a different result than a single process', expected=want, observed=got)
        return
    ctx.nontrivial += 1


def _check_seed(case, ctx):
    base = _baseline(case['base'])
    r = _fresh_battery(case['seed'])
    ctx.transitions += 1
    if r.returncode != 0:
        ctx.fail(f'battery failed under PYTHONHASHSEED={case["seed"]}', observed=r.stderr[-300:])
        return
    lines = r.stdout.splitlines()
    got = json.loads(lines[0])
    probe = lines[1][6:] if len(lines) > 1 else ''
    ctx.cats['probe ' + probe] += 1
    if got != base:
        diff = [k for k in base if got.get(k) != base[k]]
        ctx.fail(f'results differ between PYTHONHASHSEED=0 and {case["seed"]}: {diff[:5]}', expected=base[diff[0]], observed=got.get(diff[0]))
        return
    # byte-identical rendering (dict order included)
    ctx.validated += 1
    ctx.nontrivial += 1
    ctx.outcome(probe)
