"""C16 - model checking is sound and complete, and --check reports it in the exit status.

Sub-checks:
  errors   every triple list up to length 3/4 over model-specific triples x tops x models:
           Model.errors() against the reference role algebra and reference weak connectivity
  decoded  every tree of a family (also ill-formed), decoded: only role errors possible
  tool     every sequence of 1..3 input files (or stdin) each holding 0..2 graphs of 3 kinds
           (compliant / one bad role / two bad roles) x --quiet: exit status and error-N metadata;
           a fixed subset is also run through a real `python -m penman` sub-process
"""

import itertools
import os
import shutil
import tempfile

from pmc.domains import models as M
from pmc.domains import trees as T
from pmc.ref import interp as RI

ID = 'C16'
TITLE = 'Model checking is sound and complete, and --check reports it in the exit status'
RULE = ('errors: complete product of triple lists x tops x models; tool: complete product of input sequences; '
        'non-trivial = at least one error expected')
ASSUMPTIONS = [
    'messages are identified by the documented texts "invalid role", "unreachable", "graph is empty", "top is not set", "top is not a variable in the graph"',
    'instance triples are not connections (a concept spelled like a variable does not connect)',
    'tool inputs are fed through an in-process call of penman.__main__.main(); a fixed subset is cross-checked against a real sub-process',
]

ROLESETS = {
    'AMR': [':instance', ':ARG0', ':ARG0-of', ':ARG0-of-of', ':consist-of', ':foo', ':consist'],
    'MINI': [':instance', ':ARG0', ':ARG0-of', ':consist-of-of', ':op12', ':foo-of', ':ARG2'],
    'DEFAULT': [':instance', ':r', ':TOP', ':TOP-of'],
}
TOPS = [None, 'a', 'b', 'c', 'z']


def _alphabet(name):
    return [(s, r, t) for s in ('a', 'b', 'c') for r in ROLESETS[name] for t in ('a', 'b', 'x')]


def shards(tier, seed):
    out = []
    n = 3 if tier == 'quick' else 4
    for name in ('AMR', 'MINI', 'DEFAULT'):
        al = _alphabet(name)
        if tier == 'quick' or n == 4:
            pass
        for first in range(len(al)):
            # length-n lists only for a reduced alphabet (sources a, b)
            out.append({'sub': 'errors', 'model': name, 'first': first, 'n': n, 'bounds': f'all triple lists of length <= {n - 1} over 3 sources x 7 roles x 3 targets, length {n} over 2 sources; tops None a b c z; AMR, MINI, DEFAULT'})
        out.append({'sub': 'errors', 'model': name, 'first': None, 'n': 0, 'bounds': ''})
    T.ALPHABETS['c16'] = {'concepts': [T.ABSENT, 'x', 'b'], 'roles': [':ARG0', ':ARG0-of', ':foo', ':ARG0-of-of', ':consist-of-of'], 'atoms': ['k'], 'refs': 'all'}
    out += T.shard_list(3, 3, 3, 'c16', dupvars=True, extra={'sub': 'decoded', 'bounds': 'decoded TREE(3,3,3) incl. duplicate definitions x AMR, MINI, DEFAULT'})
    kinds = _contents()
    for k in range(len(kinds)):
        out.append({'sub': 'tool', 'first': k, 'nfiles': 3 if tier == 'quick' else 4, 'bounds': 'sequences of 1..3 files (thorough: 4) or stdin, each 0..2 graphs of 3 kinds, x --quiet, --amr'})
    out.append({'sub': 'tool', 'stdin': True, 'bounds': ''})
    out.append({'sub': 'tool', 'subprocess': True, 'bounds': ''})
    return out


GOOD = '(a / alpha :ARG0 (b / beta) :consist-of (c / x :ARG1-of b))'
BAD1 = '# ::id 7\n(a / alpha :foo b)'
BAD2 = '(a / alpha\n   :foo b\n   :bar (c / x :ARG0-of-of-of a :ARG1-of a))'
KINDS = {'E': ('()', None), 'G': (GOOD, []), 'B': (BAD1, [('a', ':foo', 'b')]), 'C': (BAD2, [('a', ':foo', 'b'), ('a', ':bar', 'c'), ('a', ':ARG0-of-of', 'c')])}


def _contents():
    out = ['']
    for n in (1, 2):
        for ks in itertools.product('GBCE' if n == 1 else 'GBC', repeat=n):
            out.append(''.join(ks))
    return out


def cases(shard):
    sub = shard['sub']
    if sub == 'errors':
        name = shard['model']
        if shard['first'] is None:
            for top in TOPS:
                yield {'model': name, 'triples': [], 'top': top}
            return
        al = _alphabet(name)
        small = [x for x in al if x[0] != 'c' and x[2] != 'a']
        f = al[shard['first']]
        for k in range(0, shard['n']):
            pool = al if k < shard['n'] - 1 else small
            if k == shard['n'] - 1 and f not in small:
                continue
            for rest in itertools.product(pool, repeat=k):
                for top in TOPS:
                    yield {'model': name, 'triples': [f] + list(rest), 'top': top}
    elif sub == 'decoded':
        for t in T.shard_trees(shard):
            yield {'t': t}
    elif shard.get('stdin'):
        for c in _contents():
            for quiet in (False, True):
                yield {'files': None, 'stdin': c, 'quiet': quiet}
    elif shard.get('subprocess'):
        seqs = [['E', 'G'], ['B', 'G'], ['G', 'B'], ['G', 'G'], ['BG', ''], ['', 'GC', 'G'], ['C'], ['G'], ['GB', 'G', 'G'], ['', ''], ['GG', 'CG']]
        for s in seqs:
            for quiet in (False, True):
                yield {'files': s, 'quiet': quiet, 'subprocess': True}
        yield {'files': None, 'stdin': 'BG', 'quiet': False, 'subprocess': True}
        yield {'files': None, 'stdin': 'GG', 'quiet': False, 'subprocess': True}
    else:
        cs = _contents()
        first = cs[shard['first']]
        for n in range(0, shard['nfiles']):
            for rest in itertools.product(cs, repeat=n):
                for quiet in (False, True):
                    yield {'files': [first] + list(rest), 'quiet': quiet}


# ------------------------------------------------------------------ library oracle

def _check_errors(case, ctx):
    from penman.graph import Graph
    name = case['model']
    pm, rm = M.get(name)
    triples = [tuple(t) for t in case['triples']]
    top = case['top']
    g = Graph(triples, top=top)
    try:
        err = pm.errors(g)
    except Exception as e:      # noqa: BLE001
        ctx.fail(f'Model.errors raised {type(e).__name__}', observed=str(e)[:200])
        return
    ctx.transitions += 1
    ctx.validated += 1
    want = {}
    if not triples:
        want[None] = {'graph is empty'}
    else:
        for t in triples:
            if not rm.has_role(t[1]):
                want.setdefault(t, set()).add('invalid role')
        sources = {s for s, _, _ in triples}
        eff = top if top is not None else triples[0][0]
        if not eff:
            want.setdefault(None, set()).add('top is not set')
        elif eff not in sources:
            want.setdefault(None, set()).add('top is not a variable in the graph')
        else:
            reach = RI.weakly_connected(triples, eff)
            for t in triples:
                if t[0] not in reach:
                    want.setdefault(t, set()).add('unreachable')
    got = {k: set(v) for k, v in err.items() if v}
    if got != want:
        ctx.fail(f'Model.errors differs from the reference under {name}', expected=sorted(map(repr, want.items())), observed=sorted(map(repr, got.items())))
        return
    if want:
        ctx.nontrivial += 1
    ctx.outcome(tuple(sorted(repr(sorted(v)) for v in want.values())))


def _check_decoded(case, ctx):
    import penman
    from penman.tree import Tree
    t = T.totuple(case['t'])
    for name in ('AMR', 'MINI', 'DEFAULT'):
        pm, rm = M.get(name)
        g = penman.interpret(Tree(t), model=pm)
        err = pm.errors(g)
        ctx.transitions += 1
        ctx.validated += 1
        want = {}
        for tr in g.triples:
            if not rm.has_role(tr[1]):
                want.setdefault(tr, set()).add('invalid role')
        got = {k: set(v) for k, v in err.items() if v}
        if got != want:
            ctx.fail(f'a decoded graph received something other than exactly its role errors under {name}',
                     expected=sorted(map(repr, want.items())), observed=sorted(map(repr, got.items())))
            return
    ctx.nontrivial += 1


# ------------------------------------------------------------------ tool oracle

def _text(content):
    return '\n\n'.join(KINDS[k][0] for k in content) + ('\n' if content else '')


def _check_tool(case, ctx):
    import penman
    from pmc.engine import cli
    files = case.get('files')
    d = None
    try:
        argv = ['--amr', '--check']
        if case['quiet']:
            argv.append('--quiet')
        stdin = ''
        if files is None:
            contents = [case['stdin']]
            stdin = _text(case['stdin'])
        else:
            contents = files
            d = tempfile.mkdtemp(prefix='pmc_c16_')
            for i, c in enumerate(files):
                p = os.path.join(d, f'f{i}.txt')
                with open(p, 'w', encoding='utf-8') as fh:
                    fh.write(_text(c))
                argv.append(p)
        if not case['quiet'] and not case.get('subprocess') and len(''.join(contents)) <= 3:
            # the exit status must not depend on the output notation
            code_t, out_t, err_t = cli.run_main(argv + ['--triples'], stdin)
            any_bad_t = any(k in 'BCE' for k in ''.join(contents))
            ctx.transitions += 1
            if (code_t != 0) != any_bad_t:
                ctx.fail('--check --triples: exit status non-zero exactly when some graph has an error', expected='non-zero' if any_bad_t else 0, observed=code_t)
                return
        if case.get('subprocess'):
            code, out, err = cli.run_subprocess(argv, stdin)
            code2, out2, err2 = cli.run_main(argv, stdin)
            ctx.transitions += 1
            if (code, out) != (code2, out2):
                ctx.fail('in-process harness and real sub-process disagree (harness conformance)', expected=[code, out], observed=[code2, out2])
                return
        else:
            code, out, err = cli.run_main(argv, stdin)
        ctx.transitions += 1
        ctx.validated += 1
    finally:
        if d:
            shutil.rmtree(d, ignore_errors=True)
    kinds = ''.join(contents)
    any_bad = any(k in 'BCE' for k in kinds)
    if (code != 0) != any_bad:
        ctx.fail('--check exit status: non-zero exactly when some graph in some input has an error', expected='non-zero' if any_bad else 0, observed=code,
                 repro='files: ' + repr(contents))
        return
    if 'Traceback' in err:
        ctx.fail('the tool printed a traceback', observed=err[-300:])
        return
    if case['quiet']:
        if out.strip():
            ctx.fail('--quiet still wrote to stdout', observed=out[:200])
            return
    else:
        try:
            gs = penman.loads(out)
        except Exception as e:      # noqa: BLE001
            ctx.fail(f'tool output does not load back ({type(e).__name__})', observed=out[:300])
            return
        if len(gs) != len(kinds):
            ctx.fail('one output graph per input graph', expected=len(kinds), observed=len(gs))
            return
        for g, k in zip(gs, kinds):
            errs = sorted(v for key, v in g.metadata.items() if key.startswith('error-'))
            if k == 'E':
                # the empty node: a graph-level error (no triple to name); some error-N entry must be present
                if not errs:
                    ctx.fail('the empty graph () has an error but received no error-N metadata', observed=dict(g.metadata))
                    return
                continue
            want = sorted('({}) invalid role'.format(' '.join(map(str, t))) for t in KINDS[k][1])
            if errs != want:
                ctx.fail('error-N metadata does not list exactly the offending triples of that graph', expected=want, observed=errs)
                return
            if k == 'B' and g.metadata.get('id') != '7':
                ctx.fail('metadata of the input graph lost', observed=dict(g.metadata))
                return
    if any_bad:
        ctx.nontrivial += 1
    ctx.outcome((code != 0, len(kinds)))


def check(case, ctx):
    if ctx.sub == 'errors':
        _check_errors(case, ctx)
    elif ctx.sub == 'decoded':
        _check_decoded(case, ctx)
    else:
        _check_tool(case, ctx)
