"""C15 - graph queries partition the triples; graph set operations are set algebra.

Sub-checks:
  queries  every triple list up to length 3/4 over 24 triples (2 sources, roles ':instance'
           ':r' 'r', targets a b x None; duplicates allowed) x explicit top in {unset, a, b, z}:
           the query laws of the statement
  algebra  explicit-state search over histories of |, |=, -, -=, top assignment on three
           registers; after every step each register is compared with a reference
           ordered-set model, untouched operands with their snapshot, and the query
           laws are re-evaluated in the reached state
"""

import copy
import itertools

ID = 'C15'
TITLE = 'Graph queries partition the triples; graph set operations are set algebra'
RULE = ('queries: complete product of triple lists x tops; algebra: BFS over operation histories from every pair of initial graphs of the '
        'stated family, states de-duplicated; non-trivial = list with >= 2 triples / history that changes a register')
ASSUMPTIONS = [
    'multiplicity of a triple that is duplicated inside one operand is not specified for union/difference: results are compared after removing later duplicates',
    'markers of triples present in both operands of a union are not specified; asserted: markers of added triples equal (by value) the right operand\'s, markers of left-only triples are kept, removed triples lose their entry',
    'explicit vs implicit top is observed through the API (g.top before/after inserting a probe triple at position 0 of a copy)',
]

FULL = [(s, r, t) for s in ('a', 'b') for r in (':instance', ':r', 'r') for t in ('a', 'b', 'x', None)]
T8 = [('a', ':instance', 'x'), ('b', ':instance', 'a'), ('a', ':r', 'b'), ('a', 'r', 'b'), ('b', ':r', 'a'), ('a', ':r', 'x'), ('b', ':r', None), ('a', ':r', 'a')]
TOPS = [None, 'a', 'b', 'z']
# larger operands: a union adds 3-5 triples at once (order of the added triples must be the operand's order)
BIG = [
    [('a', ':instance', 'x'), ('a', ':r', 'b'), ('b', ':instance', 'y'), ('b', ':q', 'c'), ('c', ':instance', 'z')],
    [('c', ':instance', 'z'), ('c', ':p', 'd'), ('d', ':instance', 'w'), ('d', ':r', 'a'), ('a', ':s', 'k'), ('b', ':s', None)],
    [('e', ':instance', 'v'), ('e', 'r', 'f'), ('f', ':instance', 'u'), ('f', ':q', 'e'), ('e', ':t', 'a')],
    [('a', ':instance', 'x'), ('b', ':instance', 'y'), ('c', ':instance', 'z'), ('d', ':instance', 'w')],
]


def shards(tier, seed):
    out = []
    n = 3 if tier == 'quick' else 4
    for first in range(len(FULL)):
        out.append({'sub': 'queries', 'first': first, 'n': n, 'bounds': f'all triple lists of length <= {n} over 24 triples x 4 tops'})
    out.append({'sub': 'queries', 'first': None, 'n': 0, 'bounds': f'all triple lists of length <= {n} over 24 triples x 4 tops'})
    d2 = 1 if tier == 'quick' else 2
    lists1 = _lists(1)
    lists2 = _lists(2)
    for i in range(len(lists2)):
        out.append({'sub': 'algebra', 'L': 2, 'i': i, 'depth': d2, 'bounds': f'pairs of lists (<=2 triples over 8) x tops: histories of depth {d2}; pairs of lists (<=1 triple) x tops: depth {d2 + 1}; 3 registers, 19 operations'})
    out.append({'sub': 'algebra', 'L': 'big', 'i': 0, 'depth': 2, 'bounds': ''})
    for i in range(len(lists1)):
        out.append({'sub': 'algebra', 'L': 1, 'i': i, 'depth': d2 + 1, 'bounds': ''})
    return out


def _lists(n):
    out = [()]
    for k in range(1, n + 1):
        out += list(itertools.product(T8, repeat=k))
    return out


def cases(shard):
    if shard['sub'] == 'queries':
        if shard['first'] is None:
            for top in TOPS:
                yield {'triples': [], 'top': top}
            return
        f = FULL[shard['first']]
        for k in range(0, shard['n']):
            for rest in itertools.product(FULL, repeat=k):
                for top in TOPS:
                    yield {'triples': [f] + list(rest), 'top': top}
    elif shard['L'] == 'big':
        for l1 in BIG:
            for l2 in BIG:
                for t1 in (None, 'b'):
                    yield {'l1': l1, 't1': t1, 'l2': l2, 't2': None, 'depth': shard['depth']}
    else:
        ls = _lists(shard['L'])
        l1 = ls[shard['i']]
        tops = (None, 'b') if shard['L'] == 2 else TOPS
        for l2 in ls:
            for t1 in tops:
                for t2 in tops:
                    yield {'l1': l1, 't1': t1, 'l2': l2, 't2': t2, 'depth': shard['depth']}


def _colon(r):
    return r if r.startswith(':') else ':' + r


# ------------------------------------------------------------------ query laws

def _explicit_top(g):
    """None if the top is implicit, else the explicit top - observed through the API only."""
    g2 = copy.deepcopy(g)
    g2.triples.insert(0, ('__probe__', ':r', 'x'))
    return None if g2.top == '__probe__' else g2.top


def query_laws(g, ctx, where='', light=False):
    from penman.exceptions import GraphError
    triples = [tuple(t) for t in g.triples]
    etop = _explicit_top(g)
    variables = {s for s, _, _ in triples}
    if etop is not None:
        variables.add(etop)
    if g.variables() != variables:
        ctx.fail(f'{where}variables() is not the set of sources plus the explicit top', expected=sorted(map(repr, variables)), observed=sorted(map(repr, g.variables())))
        return False
    want_top = etop if etop is not None else (triples[0][0] if triples else None)
    if g.top != want_top:
        ctx.fail(f'{where}top is not the explicit top / the source of the first triple', expected=want_top, observed=g.top)
        return False
    inst = [tuple(t) for t in g.instances()]
    edges = [tuple(t) for t in g.edges()]
    attrs = [tuple(t) for t in g.attributes()]
    w_inst = [t for t in triples if t[1] == ':instance']
    w_edges = [t for t in triples if t[1] != ':instance' and t[2] in variables]
    w_attrs = [t for t in triples if t[1] != ':instance' and t[2] not in variables]
    if inst != w_inst or edges != w_edges or attrs != w_attrs:
        ctx.fail(f'{where}instances/edges/attributes do not partition the triples in order (edges = non-instance triples with a variable target)',
                 expected=[w_inst, w_edges, w_attrs], observed=[inst, edges, attrs])
        return False
    # filters select sub-lists
    for s in (() if light else ('a', 'b', None)):
        for r in (':r', ':instance', None):
            for t in ('a', 'x', None):
                if s is None and r is None and t is None:
                    continue
                def sel(lst):
                    return [x for x in lst if (s is None or x[0] == s) and (r is None or x[1] == r) and (t is None or x[2] == t)]
                if [tuple(x) for x in g.edges(source=s, role=r, target=t)] != sel(w_edges):
                    ctx.fail(f'{where}edges(source={s}, role={r}, target={t}) is not the matching sub-list', expected=sel(w_edges), observed=[tuple(x) for x in g.edges(source=s, role=r, target=t)])
                    return False
                if [tuple(x) for x in g.attributes(source=s, role=r, target=t)] != sel(w_attrs):
                    ctx.fail(f'{where}attributes(source={s}, role={r}, target={t}) is not the matching sub-list', expected=sel(w_attrs), observed=[tuple(x) for x in g.attributes(source=s, role=r, target=t)])
                    return False
    # re-entrancies
    indeg = {}
    if want_top is not None:
        indeg[want_top] = 1
    for s, r, t in w_edges:
        indeg[t] = indeg.get(t, 0) + 1
    want_re = {v: c - 1 for v, c in indeg.items() if c >= 2}
    if g.reentrancies() != want_re:
        ctx.fail(f'{where}reentrancies() is not in-degree (+1 for the top) minus one', expected=want_re, observed=g.reentrancies())
        return False
    # top assignment
    for v in (() if light else ('a', 'b', 'z', 'x', None)):
        g2 = copy.deepcopy(g)
        try:
            g2.top = v
            ok = True
        except GraphError:
            ok = False
        except Exception as e:      # noqa: BLE001
            ctx.fail(f'{where}assigning top raised {type(e).__name__}', observed=str(e)[:100])
            return False
        allowed = v is None or v in variables
        if ok != allowed:
            ctx.fail(f'{where}top = {v!r}: ' + ('accepted although not a variable' if ok else 'refused although it is a variable'), expected=allowed, observed=ok)
            return False
        if ok:
            wt = v if v is not None else (triples[0][0] if triples else None)
            if g2.top != wt:
                ctx.fail(f'{where}after top = {v!r} the top is wrong', expected=wt, observed=g2.top)
                return False
    return True


# ------------------------------------------------------------------ reference ordered-set model

class RG:
    def __init__(self, triples, top, marks):
        self.triples = list(triples)
        self.top = top          # explicit top or None
        self.marks = dict(marks)

    def copy(self):
        return RG(self.triples, self.top, {k: list(v) for k, v in self.marks.items()})


def dedupe(ts):
    seen, out = set(), []
    for t in ts:
        if t not in seen:
            seen.add(t)
            out.append(t)
    return out


UNSPEC = ['<unspecified>']


def ref_union(a, b):
    have = set(a.triples)
    r = a.copy()
    for t in b.triples:
        if t not in have:
            r.triples.append(t)
            if t in b.marks:
                r.marks[t] = list(b.marks[t])
        elif a.marks.get(t, []) != b.marks.get(t, []):
            r.marks[t] = UNSPEC        # present in both operands with different markers: not specified
    return r


def ref_diff(a, b):
    gone = set(b.triples)
    r = a.copy()
    r.triples = [t for t in a.triples if t not in gone]
    for t in gone:
        r.marks.pop(t, None)
    occurs = {x for t in r.triples for x in (t[0], t[2])}
    if r.top not in occurs:
        r.top = None
    return r


def _mk(triples, top, tag):
    from penman.graph import Graph
    from penman.layout import Push
    norm = [(s, _colon(r), t) for s, r, t in triples]
    marks = {}
    for k, t in enumerate(norm):
        if (k % 2 == 0) if tag == 'A' else (k % 3 != 1):
            marks.setdefault(t, [f'Push({tag}{k})'])
    epi = {t: [Push(m[5:-1]) for m in v] for t, v in marks.items()}
    g = Graph(triples, top=top, epidata=epi, metadata={'id': tag})
    return g, RG(norm, top, marks)


def _marks_of(g):
    return {t: [repr(e) for e in v] for t, v in g.epidata.items()}


def _snap(g):
    return (tuple(g.triples), _explicit_top(g), tuple(sorted((repr(k), tuple(map(repr, v))) for k, v in g.epidata.items())))


OPS = [('or', 2, 0, 1), ('or', 2, 1, 0), ('ior', 0, 1), ('ior', 1, 0), ('sub', 2, 0, 1), ('sub', 2, 1, 0), ('isub', 0, 1), ('isub', 1, 0),
       ('ior', 0, 2), ('isub', 0, 2), ('ior', 2, 0), ('isub', 2, 1), ('or', 0, 2, 2), ('sub', 1, 2, 0),
       ('top', 0, 'b'), ('top', 0, None), ('top', 1, 'a'), ('top', 2, 'a'), ('or', 2, 0, 0)]


def _apply(op, regs, refs):
    """Apply op to real registers and reference registers; returns (changed_index, error or None)."""
    from penman.exceptions import GraphError
    kind = op[0]
    if kind == 'or':
        _, d, i, j = op
        regs[d] = regs[i] | regs[j]
        refs[d] = ref_union(refs[i], refs[j])
        return d
    if kind == 'sub':
        _, d, i, j = op
        regs[d] = regs[i] - regs[j]
        refs[d] = ref_diff(refs[i], refs[j])
        return d
    if kind == 'ior':
        _, i, j = op
        before = regs[i]
        regs[i] |= regs[j]
        if regs[i] is not before:
            raise AssertionError('|= did not return the same object')
        refs[i] = ref_union(refs[i], refs[j])
        return i
    if kind == 'isub':
        _, i, j = op
        before = regs[i]
        regs[i] -= regs[j]
        if regs[i] is not before:
            raise AssertionError('-= did not return the same object')
        refs[i] = ref_diff(refs[i], refs[j])
        return i
    _, i, v = op
    variables = {s for s, _, _ in refs[i].triples} | ({refs[i].top} if refs[i].top is not None else set())
    try:
        regs[i].top = v
        ok = True
    except GraphError:
        ok = False
    if ok != (v is None or v in variables):
        raise AssertionError(f'top = {v!r} accepted={ok}, variables={sorted(map(repr, variables))}')
    if ok:
        refs[i].top = v
    return i


def _compare(ctx, where, g, r, other_marks=None):
    got = dedupe([tuple(t) for t in g.triples])
    want = dedupe(r.triples)
    if got != want:
        ctx.fail(f'{where}: triples are not the order-preserving set operation', expected=want, observed=got)
        return False
    et = _explicit_top(g)
    wt = r.top
    gt = g.top
    want_top = wt if wt is not None else (r.triples[0][0] if r.triples else None)
    if gt != want_top:
        ctx.fail(f'{where}: top is wrong (an explicit top is dropped once it no longer occurs in a remaining triple)', expected=want_top, observed=gt)
        return False
    if (et is None) != (wt is None):
        ctx.fail(f'{where}: explicit/implicit status of the top is wrong', expected=wt, observed=et)
        return False
    gm = _marks_of(g)
    for t in set(want):
        if r.marks.get(t, []) == UNSPEC:
            continue
        if r.marks.get(t, []) != gm.get(t, []):
            ctx.fail(f'{where}: markers of {t} not carried along / not kept', expected=r.marks.get(t, []), observed=gm.get(t, []))
            return False
    stale = [t for t in gm if t not in set(want) and gm[t]]
    if stale and where.split(':')[0] in ('sub', 'isub'):
        ctx.fail(f'{where}: marker entry of a removed triple is still present', observed=stale)
        return False
    return True


def check(case, ctx):
    if ctx.sub == 'queries':
        from penman.graph import Graph
        triples = [tuple(t) for t in case['triples']]
        g = Graph(triples, top=case['top'])
        ctx.transitions += 1
        want = [(s, _colon(r), t) for s, r, t in triples]
        if [tuple(t) for t in g.triples] != want:
            ctx.fail('constructor did not keep the triples in order with colon-normalised roles', expected=want, observed=g.triples)
            return
        if (_explicit_top(g) is None) != (case['top'] is None):
            ctx.fail('a graph built without a top must have an implicit top (and vice versa)', expected=case['top'], observed=_explicit_top(g))
            return
        if not query_laws(g, ctx):
            return
        ctx.validated += 1
        if len(triples) >= 2:
            ctx.nontrivial += 1
        ctx.outcome((len(g.edges()), len(g.attributes()), len(g.instances()), repr(g.reentrancies())))
        return
    # ---- algebra
    l1 = [tuple(t) for t in case['l1']]
    l2 = [tuple(t) for t in case['l2']]

    def build(hist):
        from penman.graph import Graph
        g1, r1 = _mk(l1, case['t1'], 'A')
        g2, r2 = _mk(l2, case['t2'], 'B')
        regs = [g1, g2, Graph()]
        refs = [r1, r2, RG([], None, {})]
        for op in hist:
            _apply(op, regs, refs)
        return regs, refs

    seen = set()
    frontier = [[]]
    regs, refs = build([])
    seen.add(tuple(_snap(g) for g in regs))
    depth = 0
    changed_any = False
    while depth < case['depth']:
        nxt = []
        for hist in frontier:
            for op in OPS:
                regs, refs = build(hist)
                snaps = [_snap(g) for g in regs]
                where = f'{op[0]}:{list(hist) + [op]}'
                try:
                    d = _apply(op, regs, refs)
                except AssertionError as e:
                    ctx.fail(f'{where}: {e}')
                    return
                except Exception as e:      # noqa: BLE001
                    ctx.fail(f'{where}: raised {type(e).__name__}', observed=str(e)[:200])
                    return
                ctx.transitions += 1
                ctx.validated += 1
                if not _compare(ctx, where, regs[d], refs[d]):
                    return
                for k in range(3):
                    if k != d and _snap(regs[k]) != snaps[k]:
                        ctx.fail(f'{where}: operand register {k} was modified', expected=repr(snaps[k])[:300], observed=repr(_snap(regs[k]))[:300])
                        return
                if op[0] in ('or', 'sub') and regs[d].metadata:
                    ctx.fail(f'{where}: result of a non-in-place operation carries metadata of an operand', observed=dict(regs[d].metadata))
                    return
                if not query_laws(regs[d], ctx, where + ': ', light=True):
                    return
                key = tuple(_snap(g) for g in regs)
                if key not in seen:
                    seen.add(key)
                    nxt.append(list(hist) + [op])
                    changed_any = True
        frontier = nxt
        depth += 1
    ctx.cats['states'] += len(seen)
    ctx.max_depth = max(ctx.max_depth, depth)
    if changed_any:
        ctx.nontrivial += 1
