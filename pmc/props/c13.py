"""C13 - role inversion and canonicalisation obey their algebra under every model.

Space: roles = base x '-of'^k (k = 0..4) with and without the leading colon,
bases from each model's literal and pattern roles, roles defined with a trailing
'-of', normalisation keys/values, undefined roles, the empty role, collision
roles; x models {DEFAULT, AMR, NOOP, MINI, TINY*}; triples over those roles;
trees over those roles (with alignments) for the tree clause.
Oracle: the algebraic laws of the statement, plus pmc.ref.roles as a second opinion.
"""

import copy
import itertools

from pmc.domains import models as M
from pmc.domains import trees as T

ID = 'C13'
TITLE = 'Role inversion and canonicalisation obey their algebra under every model'
RULE = ('complete product of (base role, number of "-of" suffixes 0..4, with/without colon) x model; trees: every decoration of '
        'TREE(2,2,2)/(3,3,2) over those roles; non-trivial = role with at least one "-of" or a model-defined role')
ASSUMPTIONS = [
    'normalisation tables whose value is again a key (chains/cycles) or is itself non-canonical are outside the satisfiable domain (idempotence and "normalisation applied last" contradict each other there); the TINY family enumerates all other tables over its universe',
    'collision roles X with X+"-of" model-defined (:consist, :prep-on-behalf, :prep-out under AMR; :a when a table defines :a-of) are excluded from the involution/flip law only (no implementation can satisfy it: the inversion is spelled like a defined role); tests/test_model.py pins canonicalize_role(":consist") == ":consist-of-of", i.e. an undefined X is read as the inverse of a defined X-of, and the reference follows that',
    'parity of inversions is judged on the colon-normalised role text',
]

BASES = {
    'DEFAULT': [':ARG0', ':foo', ':', ':a-b', ':TOP', ':instance', ':consist-of', ':op1', ':of', ':x-off', ':part-of-speech', ':a-of-b'],
    'NOOP': [':ARG0', ':foo', ':', ':TOP', ':instance', ':consist-of'],
    'AMR': [':ARG0', ':ARG9', ':ARG10', ':op1', ':op12', ':op', ':mod', ':domain', ':consist-of', ':prep-on-behalf-of', ':prep-out-of',
            ':consist', ':prep-on-behalf', ':prep-out', ':foo', ':', ':polarity', ':TOP', ':instance', ':wiki', ':snt3', ':snt', ':year2', ':prep-against'],
    'MINI': [':ARG0', ':ARG1', ':ARG2', ':accompanier', ':domain', ':consist-of', ':consist', ':mod', ':op1', ':op12', ':op', ':foo', ':', ':TOP', ':instance'],
    'TINY': [':a', ':b', ':c1', ':c12', ':c', ':d', ':', ':TOP', ':instance'],
}


def shards(tier, seed):
    out = []
    for name in ['DEFAULT', 'NOOP', 'AMR', 'MINI']:
        out.append({'sub': 'roles', 'model': name, 'bounds': 'bases x -of^0..4 x colon/no colon x every model'})
    for name in M.names('tiny'):
        out.append({'sub': 'roles', 'model': name, 'bounds': 'bases x -of^0..4 x colon/no colon x every model'})
    for name, alpha in (('DEFAULT', 'c13default'), ('AMR', 'c13amr'), ('MINI', 'c13amr'), ('NOOP', 'c13default')):
        n, b = (3, 3) if (tier != 'quick' or name in ('DEFAULT', 'AMR')) else (2, 2)
        out += T.shard_list(n, b, 2, alpha, extra={'sub': 'trees', 'model': name, 'bounds': f'TREE({n},{b},2) over roles with inversions and alignments x DEFAULT, AMR, MINI, NOOP'})
    out.append({'sub': 'rebuilt', 'bounds': 'pairs of models built one after the other from the same (then extended) role dict, and from short-lived dicts'})
    tiny = M.names('tiny')
    for name in tiny[seed % 7::7] if tier == 'quick' else tiny:
        out += T.shard_list(2, 2, 2, 'c13tiny', pin=1, extra={'sub': 'trees', 'model': name, 'bounds': 'TREE(2,2,2) over TINY roles x TINY tables (quick: every 7th table, offset VERIF_SEED)'})
    return out


T.ALPHABETS['c13default'] = {'concepts': [T.ABSENT, 'x'], 'atoms': ['k', '"s"~2', None], 'refs': 'all+aligned0',
                             'roles': [':ARG0', 'ARG0', ':ARG0-of', ':ARG0-of-of', ':ARG0-of-of-of~e.1', ':consist-of-of', ':', ':foo-of-of-of-of~2', '-of']}
T.ALPHABETS['c13amr'] = {'concepts': [T.ABSENT, 'x'], 'atoms': ['k', '"s"~2'], 'refs': 'all+aligned0',
                         'roles': [':ARG0-of-of', 'mod-of', ':mod-of-of-of~e.1', ':domain-of~1', ':consist-of', ':consist-of-of-of', ':consist-of-of', ':op1-of-of~2', ':foo-of-of', ':']}
T.ALPHABETS['c13tiny'] = {'concepts': [T.ABSENT, 'x'], 'atoms': ['k'], 'refs': 'all',
                          'roles': [':a', ':a-of', 'a-of-of', ':a-of-of-of~1', ':b-of', ':c1-of', ':c1-of-of-of', ':b']}


def cases(shard):
    if shard['sub'] == 'rebuilt':
        universe = [':a', ':a-of', ':b', ':consist-of', ':c[0-9]']
        for n in range(len(universe) + 1):
            for first in itertools.combinations(universe, n):
                for extra in universe:
                    if extra not in first:
                        yield {'first': list(first), 'extra': extra}
        return
    if shard['sub'] == 'roles':
        name = shard['model']
        bases = BASES['TINY'] if name.startswith('TINY') else BASES[name]
        if name.startswith('TINY') or name in ('AMR', 'MINI'):
            sp = M.spec(name) if name != 'AMR' else None
            extra = []
            if sp:
                extra = list(sp['normalizations']) + list(sp['normalizations'].values())
            else:
                extra = [':mod-of', ':domain-of']
            bases = bases + [b for b in extra if b not in bases]
        for b in bases:
            for k in range(9):
                for colon in (True, False):
                    r = b + '-of' * k
                    if not colon:
                        if not r.startswith(':'):
                            continue
                        r = r[1:]
                    yield {'model': name, 'role': r}
    else:
        for t in T.shard_trees(shard):
            yield {'model': shard['model'], 't': t}


def _colon(r):
    return r if r.startswith(':') else ':' + r


PROBES = [':a', ':a-of', ':a-of-of', ':b', ':b-of', ':consist-of', ':consist-of-of', ':consist', ':c1', ':c1-of', ':zz-of']


def _check_rebuilt(case, ctx):
    from penman.model import Model
    from pmc.ref.roles import RefModel
    d = {r: {} for r in case['first']}
    m1 = Model(roles=d)
    for _ in range(3):
        Model(roles={r: {} for r in case['first']})       # short-lived tables in between
    d[case['extra']] = {}
    m2 = Model(roles=d)
    ctx.transitions += 2
    for m, roles in ((m1, case['first']), (m2, case['first'] + [case['extra']])):
        rm = RefModel(list(roles))
        for r in PROBES:
            ctx.validated += 1
            got = (m.has_role(r), m.is_role_inverted(r), m.invert_role(r), m.canonicalize_role(r))
            # m1 was built before the dict was extended: it must keep answering for its own table
            want = (rm.has_role(r), rm.is_inverted(r), rm.invert_role(r), rm.canonicalize_role(r))
            if got != want:
                ctx.fail('a model built from a role table answers for a different table (has_role, is_role_inverted, invert_role, canonicalize_role)',
                         expected=[r, list(want)], observed=[sorted(roles), list(got)])
                return
    ctx.nontrivial += 1


def check(case, ctx):
    if ctx.sub == 'rebuilt':
        _check_rebuilt(case, ctx)
        return
    name = case['model']
    pm, rm = M.get(name)
    if 'role' in case:
        _check_role(case['role'], name, pm, rm, ctx)
    else:
        _check_tree(T.totuple(case['t']), name, pm, rm, ctx)


def _check_role(r, name, pm, rm, ctx):
    c = pm.canonicalize_role(r)
    ctx.transitions += 1
    if '-of' in r or rm.defined(_colon(r)):
        ctx.nontrivial += 1
    ctx.outcome((name.startswith('TINY') and 'TINY' or name, r, c))
    # L1 idempotent
    c2 = pm.canonicalize_role(c)
    if c2 != c:
        ctx.fail('canonicalize_role is not idempotent', expected=c, observed=c2)
        return
    # L2 leading colon
    if not c.startswith(':'):
        ctx.fail('canonical role lacks the leading colon', observed=c)
        return
    # L3 inversions removed only in pairs, normalisation applied last
    cr = _colon(r)
    ok = False
    cand = cr
    if rm.defined(cr + '-of') and not rm.defined(cr) and not cr.endswith('-of'):
        # collision role: pinned by tests/test_model.py to be read as the inverse of X-of (X -> X-of-of)
        cand = cr + '-of-of'
        ctx.cats['collision_role_canonicalised_by_adding_a_pair'] += 1
    while True:
        if c == cand or c == pm.normalizations.get(cand, None):
            ok = True
            break
        if cand.endswith('-of-of'):
            cand = cand[:-6]
        else:
            break
    if not ok:
        ctx.fail('canonical role is not the role minus an even number of inversions (optionally normalised)', expected=f'{cr} minus 2j x "-of"', observed=c)
        return
    # second opinion: reference role algebra
    ctx.validated += 1
    want = rm.canonicalize_role(r)
    if c != want:
        ctx.fail('canonicalize_role differs from the reference role algebra', expected=want, observed=c)
        return
    for fn, ref, what in ((pm.has_role, rm.has_role, 'has_role'), (pm.is_role_inverted, rm.is_inverted, 'is_role_inverted'),
                          (pm.invert_role, rm.invert_role, 'invert_role')):
        got, exp = fn(cr), ref(cr)
        ctx.transitions += 1
        if got != exp:
            ctx.fail(f'{what}({cr!r}) differs from the reference role algebra', expected=exp, observed=got)
            return
    # L4 defined => never inverted
    if rm.defined(cr) and pm.is_role_inverted(cr):
        ctx.fail('a model-defined role is considered inverted', observed=cr)
        return
    # L5 involution + flip on canonical, non-collision roles
    canonical = rm.canonical_inversion(cr) == cr
    collision = rm.defined(cr + '-of')     # the inversion of cr is spelled like a model-defined role
    if canonical and not collision:
        i1 = pm.invert_role(cr)
        i2 = pm.invert_role(i1)
        if i2 != cr:
            ctx.fail('invert_role is not an involution on a canonical role', expected=cr, observed=i2)
            return
        if pm.is_role_inverted(i1) == pm.is_role_inverted(cr):
            ctx.fail('inverting a canonical role does not flip inverted-ness', observed=[cr, i1])
            return
        ctx.cats['involution_checked'] += 1
    elif collision:
        ctx.cats['collision_role_excluded'] += 1
    # L6/L7 triples
    tr = ('s', cr, 't')
    inv = pm.invert(tr)
    if inv != ('t', pm.invert_role(cr), 's'):
        ctx.fail('invert(triple) does not swap source and target with the inverted role', observed=inv)
        return
    de = pm.deinvert(tr)
    if name == 'NOOP':
        exp = tr
    else:
        exp = inv if pm.is_role_inverted(cr) else tr
    if de != exp:
        ctx.fail('deinvert(triple) is not invert() on inverted roles / identity otherwise', expected=exp, observed=de)
        return
    can = pm.canonicalize(tr)
    if can != ('s', c, 't'):
        ctx.fail('canonicalize(triple) changed more than the role', expected=('s', c, 't'), observed=can)
        return
    ctx.cats['inverted' if rm.is_inverted(cr) else 'not_inverted'] += 1


def _split(role):
    i = role.find('~')
    return (role, '') if i < 0 else (role[:i], role[i:])


def _same_but_roles(a, b, rm):
    """b is a with every role canonicalised (alignment kept) and nothing else changed"""
    if a[0] != b[0] or len(a[1]) != len(b[1]):
        return False
    for (r1, t1), (r2, t2) in zip(a[1], b[1]):
        base, aln = _split(r1)
        if base == '/':
            if r2 != r1:
                return False
        elif r2 != rm.canonicalize_role(base) + aln:
            return False
        if isinstance(t1, tuple):
            if not isinstance(t2, tuple) or not _same_but_roles(t1, t2, rm):
                return False
        elif t1 != t2:
            return False
    return True


def _check_tree(t, name, pm, rm, ctx):
    from penman import transform
    from penman.tree import Tree
    src = Tree(copy.deepcopy(t), metadata={'id': '1'})
    t2 = transform.canonicalize_roles(src, pm)
    ctx.transitions += 1
    ctx.validated += 1
    if src.node != t:
        ctx.fail('canonicalize_roles modified its argument', expected=t, observed=src.node)
        return
    if not _same_but_roles(t, t2.node, rm):
        ctx.fail('canonicalize_roles changed more than role text (or did not canonicalise a role)', expected='same shape/targets/alignments, canonical roles', observed=t2.node)
        return
    if dict(t2.metadata) != {'id': '1'}:
        ctx.fail('canonicalize_roles lost the metadata', observed=dict(t2.metadata))
        return
    t3 = transform.canonicalize_roles(t2, pm)
    if t3.node != t2.node:
        ctx.fail('canonicalize_roles is not idempotent', expected=t2.node, observed=t3.node)
        return
    if t[1]:
        ctx.nontrivial += 1
    ctx.outcome(repr(t2.node))
