"""C10 - relabelling variables is a graph isomorphism.

Space: trees with each variable defined once (TREE family; concepts absent,
symbol, spelled like a variable, string, '_p', number, non-ASCII, aligned;
aligned and plain re-entrancies; empty nodes) x 6 formats.
Oracle: reference relabelling (first-fit names from concepts in depth-first
order, substitution at definitions and references only) and, when no constant
is spelled like a generated name, interpret(relabelled) == rename(interpret(original)).
"""

import copy

from pmc.domains import models as M
from pmc.domains import trees as T
from pmc.ref import interp as RI

ID = 'C10'
TITLE = 'Relabelling variables is a graph isomorphism'
FORMATS = ['{prefix}{j}', '{prefix}{i}', 'a{i}', 'a{j}', '{prefix}_{i}{j}', 'v{i}']
RULE = ('every decoration of every tree shape within bounds over the C10 alphabet x 6 formats; non-trivial = at least two nodes or a re-entrancy')
ASSUMPTIONS = [
    'formats without {i}/{j} cannot yield a bijection for two equal prefixes and are outside the statement',
    'the commutation with interpret is asserted only when no constant (attribute target) is spelled like a generated name, as stated',
    'trees defining a variable twice are ill-formed and outside the statement',
]

T.ALPHABETS['c10'] = {
    'concepts': [T.ABSENT, 'x', 'a', 'b', '"string"', '_p', '7', '\u00dcnic', 'x~1', T.NOCONCEPT],
    'roles': [':r', ':r-of~1'],
    'atoms': ['k', 'x', '"a"', 'v1'],
    'refs': 'all+alignedself',
}
T.ALPHABETS['c10m'] = {
    'concepts': [T.ABSENT, 'x', 'b', '"string"'],
    'roles': [':r', ':r-of~1'],
    'atoms': ['x', 'v1'],
    'refs': 'all+alignedself',
}
T.ALPHABETS['c10n'] = {
    'concepts': [T.ABSENT, 'x'],
    'roles': [':r', ':r-of'],
    'atoms': ['x'],
    'refs': 'all',
}


def shards(tier, seed):
    out = []
    if tier == 'quick':
        out += T.shard_list(3, 2, 3, 'c10', empty_nodes=True, extra={'sub': 'wide', 'bounds': 'TREE(3,2,3) C10 alphabet, empty nodes x 6 formats'})
        out += T.shard_list(3, 3, 3, 'c10m', extra={'sub': 'mid', 'bounds': 'TREE(3,3,3) mid C10 alphabet x 6 formats'})
        out += T.shard_list(4, 4, 3, 'c10n', extra={'sub': 'narrow', 'bounds': 'TREE(4,4,3) narrow C10 alphabet x 6 formats'})
    else:
        out += T.shard_list(3, 3, 3, 'c10', pin=3, extra={'sub': 'wide', 'bounds': 'TREE(3,3,3) C10 alphabet x 6 formats'})
        out += T.shard_list(3, 3, 3, 'c10m', extra={'sub': 'mid', 'bounds': 'TREE(3,3,3) mid C10 alphabet x 6 formats'})
        out += T.shard_list(4, 5, 4, 'c10n', pin=3, extra={'sub': 'narrow', 'bounds': 'TREE(4,5,4) narrow C10 alphabet x 6 formats'})
    return out


def cases(shard):
    for t in T.shard_trees(shard):
        yield {'t': t}


# ---------------------------------------------------------------- reference

def _prefix(concept):
    if isinstance(concept, str) and concept:
        for ch in concept:
            if ch.isalpha():
                return ch.lower()
    return '_'


def _nodes(node, out):
    var, branches = node
    if var is not None:
        out.append(node)
    for _, tgt in branches:
        if not RI.is_atomic(tgt):
            _nodes(tgt, out)
    return out


def ref_varmap(node, fmt):
    varmap, used = {}, set()
    for var, branches in _nodes(node, []):
        if var in varmap:
            continue
        concept = None
        for role, tgt in branches:
            if role == '/':
                concept = tgt
                break
        pre = _prefix(concept)
        i = 0
        while True:
            new = fmt.format(prefix=pre, i=i, j='' if i == 0 else i + 1)
            i += 1
            if new not in used:
                break
            if i > 50:
                raise RuntimeError('format cannot produce fresh names')
        used.add(new)
        varmap[var] = new
    return varmap


def ref_apply(node, varmap):
    var, branches = node
    out = []
    for role, tgt in branches:
        if not RI.is_atomic(tgt):
            tgt = ref_apply(tgt, varmap)
        elif role != '/' and isinstance(tgt, str):
            name, aln = RI.split_atom(tgt)
            if name in varmap:
                tgt = varmap[name] + aln
        out.append((role, tgt))
    return (varmap.get(var, var), out)


def _constants(node, variables, out):
    var, branches = node
    for role, tgt in branches:
        if RI.is_atomic(tgt):
            if role != '/' and isinstance(tgt, str):
                name, _ = RI.split_atom(tgt)
                if name not in variables:
                    out.add(name)
        else:
            _constants(tgt, variables, out)
    return out


# the family names its nodes a, b, c, ... in depth-first order; these renamings add trees whose
# existing names are out of order or collide with names the formats generate
VARIANTS = [None, {'a': 'b', 'b': 'a'}, {'a': 'x2', 'b': 'x', 'c': 'a2', 'd': 'v0'}, {'a': '_2', 'b': '_', 'c': '1', 'd': '_x'}]


def check(case, ctx):
    t0 = T.totuple(case['t'])
    for ren in (VARIANTS if ctx.sub != 'narrow' else VARIANTS[::3]):
        t = t0 if ren is None else ref_apply(t0, ren)
        if ren is not None and t == t0:
            continue
        n = len(ctx.fails)
        _check_one(t, ctx)
        if len(ctx.fails) > n:
            ctx.fails[-1]['case'] = {'t': t}
            return


def _check_one(t, ctx):
    from penman import layout, surface
    from penman.tree import Tree
    pm, rm = M.get('DEFAULT')
    variables = set(RI.tree_vars(t))
    nontrivial = len(variables) >= 2 or any(RI.is_atomic(x) and isinstance(x, str) and RI.split_atom(x)[0] in variables for _, x in t[1])
    for fmt in FORMATS:
        tree = Tree(copy.deepcopy(t), metadata={'id': '1'})
        try:
            tree.reset_variables(fmt)
        except Exception as e:      # noqa: BLE001
            ctx.fail(f'reset_variables({fmt!r}) raised {type(e).__name__}', observed=str(e)[:200])
            return
        ctx.transitions += 1
        ctx.validated += 1
        vm = ref_varmap(t, fmt)
        if len(set(vm.values())) != len(vm):
            ctx.fail('reference map not injective (harness)', observed=vm)
            return
        want = ref_apply(t, vm)
        if tree.node != want:
            ctx.fail(f'reset_variables({fmt!r}) is not the first-fit bijection applied at definitions and references only',
                     expected=want, observed=tree.node,
                     repro=f'from penman.tree import Tree; t=Tree({t!r}); t.reset_variables({fmt!r}); print(t)')
            return
        if dict(tree.metadata) != {'id': '1'}:
            ctx.fail('reset_variables touched the metadata', observed=dict(tree.metadata))
            return
        # commutes with interpretation
        consts = _constants(t, variables, set())
        if consts & set(vm.values()):
            ctx.cats['constant_spelled_like_new_name'] += 1
            continue
        g0 = layout.interpret(Tree(copy.deepcopy(t)), pm)
        g1 = layout.interpret(tree, pm)
        ctx.transitions += 2
        ren = lambda x: vm.get(x, x)     # noqa: E731
        want_triples = [(ren(s), r, (ren(tg) if (r != ':instance' and tg in variables) else tg)) for s, r, tg in g0.triples]
        if list(g1.triples) != want_triples or g1.top != ren(g0.top):
            ctx.fail(f'interpret(relabelled) != rename(interpret(original)) for {fmt!r}', expected=want_triples, observed=list(g1.triples))
            return
        for fn in (surface.alignments, surface.role_alignments):
            a0 = {(ren(s), r, (ren(tg) if (r != ':instance' and tg in variables) else tg)): str(v) for (s, r, tg), v in fn(g0).items()}
            a1 = {k: str(v) for k, v in fn(g1).items()}
            if a0 != a1:
                ctx.fail(f'alignments of the relabelled graph differ for {fmt!r}', expected=repr(a0), observed=repr(a1))
                return
        e0 = [[repr(e) if not hasattr(e, 'variable') else 'Push(%s)' % ren(e.variable) for e in g0.epidata.get(tr, [])] for tr in g0.triples]
        e1 = [[repr(e) for e in g1.epidata.get(tr, [])] for tr in g1.triples]
        if e0 != e1:
            ctx.fail(f'layout markers of the relabelled graph differ for {fmt!r}', expected=e0, observed=e1)
            return
    if nontrivial:
        ctx.nontrivial += 1
    ctx.outcome(repr(t))
