"""C01 - text <-> tree is lossless under every formatting option.

Sub-checks:
  trees  every decoration of every tree shape within bounds (unfiltered: also
         ill-formed trees, empty node, missing concept/target, anonymous role,
         strings with delimiters, alignments) x metadata variant x 5 indents x
         2 compact settings
  meta   a small tree set x all metadata variants x all options
  fixed  every *accepted* string / token sequence of the C07 enumeration:
         format(parse(.)) is a fixed point of parse-then-format
Oracle: parse(format(t, o)) == t with equal metadata; all 10 texts have the same
token sequence (reference lexer) and only SP/LF between tokens.
"""

import itertools

from pmc.domains import trees as T
from pmc.ref import lexer as L
from pmc.props import c07 as C07

ID = 'C01'
TITLE = 'Text <-> tree is lossless under every formatting option'

INDENTS = [None, -1, 0, 1, 3]
OPTIONS = [(i, c) for i in INDENTS for c in (False, True)]
OPTIONS_REDUCED = [(None, False), (-1, True), (0, False), (3, True)]
OPTIONS_WIDE_QUICK = [(None, False), (None, True), (-1, False), (-1, True), (0, False), (1, True), (3, False)]
METAS = [
    {},
    {'id': '1'},
    {'id': '1', 'snt': 'x y'},
    {'k': ''},
    {'snt': 'a ; ( ) " # b', 'z': ''},
    {'snt': 'é あ  z'},
    {'k': ' lead', 'tok': 'a : b ~ / c'},
    {'snt': 'tab\there  and\xa0nbsp', 'id': 'z 1'},
]

RULE = ('trees: every decoration of every shape within the bounds, metadata variant chosen by position (all variants on the '
        'small set), all 10 option pairs; fixed: all strings/token sequences accepted by the parser; non-trivial = tree with >= 1 branch')
ASSUMPTIONS = [
    'atoms are text (str/None) as the parser produces them; int/float atoms of hand-built trees are covered by C03',
    'metadata values containing "::", line breaks or trailing blanks, keys containing blanks, and duplicate keys cannot be expressed by a comment and are outside "grammar-valid"',
    'indent values explored: None, -1, 0, 1, 3',
]

T.ALPHABETS['c01wide'] = dict(T.ALPHABETS['wide'])
T.ALPHABETS['c01wide']['atoms'] = T.ALPHABETS['wide']['atoms'] + ['""', '"\\"q\\\\"', 'k#1', 'k~1,2,3', '"t\tb"']
T.ALPHABETS['c01wide']['concepts'] = T.ALPHABETS['wide']['concepts'] + ['""~1', 'x#y']

# comment lines for the fixed-point clause (multi-key lines, empty values, odd spacing)
COMMENT_SEGMENTS = ['::id 1', '::snt x y', '::k', ' ::z  w ', 'free text', ':: a', '::a:b c']
GRAPH_TEXTS = ['(a / b)', '(a / b :r (c / d))\n# ::tail 1\n(e / f)']


def shards(tier, seed):
    out = []
    q = tier == 'quick'
    out += T.shard_list(3, 2, 3, 'c01wide', empty_nodes=True, extra={'sub': 'trees', 'quick': int(q), 'bounds': 'TREE(3,2,3) wide, empty nodes x ' + ('7 option pairs' if q else '10 option pairs')})
    if q:
        mid = T.shard_list(3, 3, 3, 'mid', empty_nodes=True, extra={'sub': 'trees', 'quick': 1, 'bounds': 'TREE(3,3,3) mid, empty nodes x 4 option pairs (VERIF_SEED-chosen half)'})
        out += mid[seed % 2::2]
        out += T.shard_list(4, 4, 4, 'narrow', extra={'sub': 'trees', 'quick': 1, 'bounds': 'TREE(4,4,4) narrow x 4 option pairs'})
    else:
        out += T.shard_list(3, 3, 3, 'mid', empty_nodes=True, extra={'sub': 'trees', 'bounds': 'TREE(3,3,3) mid, empty nodes x 10 options'})
        out += T.shard_list(3, 4, 3, 'mid', pin=3, extra={'sub': 'trees', 'quick': 1, 'bounds': 'TREE(3,4,3) mid x 4 option pairs'})
        out += T.shard_list(4, 5, 4, 'narrow', pin=3, extra={'sub': 'trees', 'quick': 1, 'bounds': 'TREE(4,5,4) narrow x 4 option pairs'})
    out += T.shard_list(2, 2, 2, 'mid', empty_nodes=True, pin=1, extra={'sub': 'meta', 'bounds': f'TREE(2,2,2) mid x {len(METAS)} metadata variants x 10 options'})
    full = 5 if q else 6
    for a in C07.SIGMA:
        for c in C07.SIGMA:
            if a != '(' and a not in ' \n#':
                continue   # a graph starts with blanks, a comment or '('
            out.append({'sub': 'fixed', 'kind': 's', 'prefix': a + c, 'lens': list(range(1, full - 1)),
                        'bounds': f'accepted strings of length <= {full} over the 16-char C07 alphabet x 10 options'})
    out.append({'sub': 'fixed', 'kind': 'c', 'n': 3 if q else 4, 'bounds': 'comment lines built from <= 3/4 of 7 segments (multi-key lines, empty values), 1-2 comment lines, before 2 graph texts x 10 options'})
    m = 7 if q else 8
    for f in itertools.product(C07.TOK, repeat=3):
        if f[0] not in ('(', '#c\n'):
            continue
        out.append({'sub': 'fixed', 'kind': 't', 'first': list(f), 'max': m,
                    'bounds': f'accepted strings of length <= {full} over the 16-char C07 alphabet x 10 options'})
    return out


def cases(shard):
    sub = shard['sub']
    if sub == 'trees':
        red = shard['alpha'] != 'c01wide' and shard.get('quick')
        for k, t in enumerate(T.shard_trees(shard)):
            if red:
                yield {'t': t, 'm': k % len(METAS), 'o': 1}
            elif shard.get('quick'):
                yield {'t': t, 'm': k % len(METAS), 'o': 2}
            else:
                yield {'t': t, 'm': k % len(METAS)}
    elif sub == 'meta':
        for t in T.shard_trees(shard):
            for m in range(len(METAS)):
                yield {'t': t, 'm': m}
    elif shard['kind'] == 'c':
        lines = []
        for n in range(1, shard['n'] + 1):
            for segs in itertools.product(COMMENT_SEGMENTS, repeat=n):
                lines.append('# ' + ' '.join(segs))
        for gt in GRAPH_TEXTS:
            for ln in lines:
                yield {'s': ln + '\n' + gt}
            for l1, l2 in itertools.product(lines[:60], repeat=2):
                yield {'s': l1 + '\n' + l2 + '\n' + gt}
    elif shard['kind'] == 's':
        for n in shard['lens']:
            for tt in itertools.product(C07.SIGMA, repeat=n):
                yield {'s': shard['prefix'] + ''.join(tt)}
    else:
        for seq in C07._tok_dfs(list(shard['first']), shard['max'], C07.TOK, False):
            yield {'s': ' '.join(seq)}


def _tokens(text):
    return [(t[0], t[1]) for t in L.lex(text)]


def _gaps_ok(text):
    """Only SP and LF between tokens."""
    toks = L.lex(text)
    lines = L.split_lines(text)
    if '\r' in text:
        return False
    for k, ln in enumerate(lines):
        cov = bytearray(len(ln))
        for t in toks:
            if t[2] == k + 1:
                for i in range(t[3], t[3] + len(t[1])):
                    cov[i] = 1
        for c, f in zip(ln, cov):
            if not f and c != ' ':
                return False
    return True


def check(case, ctx):
    import penman
    from penman.tree import Tree
    if 't' in case:
        t = T.totuple(case['t'])
        md = METAS[case['m']]
        base = None
        for indent, compact in ({1: OPTIONS_REDUCED, 2: OPTIONS_WIDE_QUICK}.get(case.get('o'), OPTIONS)):
            try:
                s = penman.format(Tree(t, metadata=dict(md)), indent=indent, compact=compact)
                t2 = penman.parse(s)
            except Exception as e:      # noqa: BLE001
                ctx.fail(f'format/parse raised {type(e).__name__} (indent={indent}, compact={compact})', observed=str(e)[:300])
                return
            ctx.transitions += 1
            ctx.validated += 1     # tokens of every text are compared with the reference lexer below
            if t2.node != t:
                ctx.fail(f'parse(format(t)) != t (indent={indent}, compact={compact})', expected=t, observed=t2.node,
                         repro=f'import penman; from penman.tree import Tree; s=penman.format(Tree({t!r}), indent={indent}, compact={compact}); print(s); print(penman.parse(s))')
                return
            if dict(t2.metadata) != md:
                ctx.fail(f'metadata not preserved (indent={indent}, compact={compact})', expected=md, observed=dict(t2.metadata))
                return
            if ctx.sub == 'meta':
                # the same round trip through the other documented entry points
                from penman.codec import PENMANCodec
                codec = PENMANCodec()
                try:
                    routes = [('PENMANCodec.format/parse', [codec.parse(codec.format(Tree(t, metadata=dict(md)), indent=indent, compact=compact))]),
                              ('penman.iterparse', list(penman.iterparse(s))),
                              ('PENMANCodec.iterparse', list(codec.iterparse(s)))]
                except Exception as e:      # noqa: BLE001
                    ctx.fail(f'codec format/parse/iterparse raised {type(e).__name__} (indent={indent}, compact={compact})', observed=str(e)[:300])
                    return
                ctx.transitions += 3
                for what, ts in routes:
                    if len(ts) != 1 or ts[0].node != t or dict(ts[0].metadata) != md:
                        ctx.fail(f'{what}: round trip differs (indent={indent}, compact={compact})', expected=[t, md], observed=[(x.node, dict(x.metadata)) for x in ts])
                        return
            toks = _tokens(s)
            if base is None:
                base = toks
            elif toks != base:
                ctx.fail(f'texts under different options differ in more than whitespace (indent={indent}, compact={compact})', expected=base, observed=toks)
                return
            if not _gaps_ok(s):
                ctx.fail(f'something other than SP/LF between tokens (indent={indent}, compact={compact})', observed=s)
                return
        if t[1]:
            ctx.nontrivial += 1
        ctx.outcome(repr(base))
    else:
        s = case['s']
        try:
            t0 = penman.parse(s)
        except penman.DecodeError:
            ctx.cats['rejected'] += 1
            return
        except Exception as e:      # noqa: BLE001
            ctx.fail(f'parse raised {type(e).__name__}', observed=str(e)[:200])
            return
        ctx.cats['accepted'] += 1
        ctx.nontrivial += 1
        for indent, compact in OPTIONS:
            try:
                f1 = penman.format(t0, indent=indent, compact=compact)
                t1 = penman.parse(f1)
                f2 = penman.format(t1, indent=indent, compact=compact)
            except Exception as e:      # noqa: BLE001
                ctx.fail(f'format/parse of an accepted input raised {type(e).__name__} (indent={indent}, compact={compact})', observed=str(e)[:300])
                return
            ctx.transitions += 1
            if f2 != f1:
                ctx.fail(f'formatted text is not a fixed point of parse-then-format (indent={indent}, compact={compact})', expected=f1, observed=f2)
                return
            if t1.node != t0.node or dict(t1.metadata) != dict(t0.metadata):
                ctx.fail(f'parse(format(parse(s))) differs from parse(s) (indent={indent}, compact={compact})', expected=repr(t0.node), observed=repr(t1.node))
                return
        ctx.outcome(repr(t0.node))
