"""C09 - the same text means the same graphs in every container and stream framing.

Space: every sequence of 0..3 (thorough: 0..4) graphs from a 9-graph corpus (metadata with
several keys on one line, empty values, values holding ; ( ) " # and U+2028 / U+0085 / FF / VT
/ U+001C, string constants holding the same) x serialisation {dumps, dump to StringIO, dump
to a real file, manual join with blank line / newline / space / nothing} x indent {-1, None, 0} x line
terminator {LF, CRLF, CR} x container {str, lines, lines with terminators, text stream,
file name, open file} x API {loads/load/iterdecode, iterparse}.
Oracle: every container yields the same graph sequence (triples, top, marker lists,
metadata) and it equals the original list.
"""

import io
import itertools
import os
import shutil
import tempfile

ID = 'C09'
TITLE = 'The same text means the same graphs in every container and stream framing'
RULE = ('complete product of graph sequences x serialisations x indents x terminators x containers; non-trivial = at least two graphs or a graph with metadata')
ASSUMPTIONS = [
    'text streams are created with universal newlines (io.StringIO(text, newline=None)), as files opened in text mode are',
    'duplicate metadata keys and values that a comment cannot express (line breaks, "::", trailing blanks) are not in the corpus',
    'graphs in the corpus are well-formed; the corpus is fixed (7 graphs), sequences are enumerated completely',
]

CORPUS = [
    '(a / alpha)',
    '# ::id 1 ::snt x y\n(b / beta :ARG0 (c / gamma) :ARG1-of c)',
    '# ::empty\n# ::k v\n(d / delta :op1 "s ; (" :op2 "#")',
    '# ::snt a ; ( ) " # b\n(e / eps :polarity - :mod (f / phi~e.1))',
    '# ::snt x y\u0085z\x0cw\x0bv\x1cu\n(g / gamma :op1 "p q\x0br\x1cs\u0085t" :op2 k l)',
    '(h / eta :ARG0 (i / iota :ARG0 (j / kappa)) :ARG1 j)',
    '# ::id 7 ::lang C#\n(k)',
    '# ::empty\n(m / mu :ARG0 (n / nu))',
    '(x / X :consist-of (y / Y :mod-of x) :ARG0-of y)',
]
MODELS = ['DEFAULT', 'AMR']     # the last corpus graph reads differently under the two
TERMS = {'LF': '\n', 'CRLF': '\r\n', 'CR': '\r'}
INDENTS = [-1, None, 0]
SERIALS = ['dumps', 'dump_stringio', 'dump_file', 'dump_file_utf16', 'join_blank', 'join_newline', 'join_space', 'join_none']
CONTAINERS = ['str', 'lines', 'lines_with_terminators', 'stream', 'filename', 'filehandle']


def shards(tier, seed):
    out = []
    n = 3 if tier == 'quick' else 4
    seqs = [()]
    for k in range(1, n + 1):
        seqs += list(itertools.product(range(len(CORPUS)), repeat=k))
    b = f'all sequences of 0..{n} graphs from {len(CORPUS)} x {len(SERIALS)} serialisations (sequences containing the model-sensitive graph also under the AMR model) x 3 indents x 3 terminators x 6 containers x 2 APIs'
    for i in range(0, len(seqs), 4):
        out.append({'sub': 'framing', 'seqs': [list(s) for s in seqs[i:i + 4]], 'bounds': b})
    return out


def cases(shard):
    for seq in shard['seqs']:
        for ser in SERIALS:
            for indent in INDENTS:
                yield {'seq': seq, 'ser': ser, 'indent': indent}
                if 8 in seq:
                    yield {'seq': seq, 'ser': ser, 'indent': indent, 'model': 'AMR'}


def _sig(g):
    return (list(g.triples), g.top, [[repr(e) for e in g.epidata.get(t, [])] for t in g.triples], dict(g.metadata))


def _split_keep(text, term):
    parts = text.split(term)
    lines_no = parts
    lines_with = [p + term for p in parts[:-1]] + ([parts[-1]] if parts[-1] != '' else [])
    return lines_no, lines_with


_ref_cache = {}


def _reference(i, mname='DEFAULT'):
    """Expected tree, metadata, triples and top of corpus entry i from the reference lexer, grammar and
    interpretation (not from penman: a defect shared by all containers must not cancel out)."""
    if (i, mname) not in _ref_cache:
        from pmc.ref import grammar as RG, lexer as RL, interp as RI
        from pmc.ref.roles import RefModel
        r = RG.parse_one(RL.lex(CORPUS[i]))
        assert r[0] == 'ok', CORPUS[i]
        from pmc.domains import models as MM
        it = RI.interpret(r[1], MM.get(mname)[1])
        _ref_cache[(i, mname)] = (r[1], r[2], it['triples'], it['top'])
    return _ref_cache[(i, mname)]


def check(case, ctx):
    import penman
    from pmc.domains import models as MM
    mname = case.get('model', 'DEFAULT')
    model = MM.get(mname)[0] if mname != 'DEFAULT' else None
    originals = [penman.decode(CORPUS[i], model=model) for i in case['seq']]
    want = [_sig(g) for g in originals]
    want_trees = [(penman.parse(CORPUS[i]).node, dict(penman.parse(CORPUS[i]).metadata)) for i in case['seq']]
    for i, w, wt in zip(case['seq'], want, want_trees):
        node, md, triples, top = _reference(i, mname)
        if wt[0] != node or wt[1] != md or w[0] != triples or w[1] != top or w[3] != md:
            ctx.fail('decoding a corpus graph on its own differs from the reference reading (tree, metadata, triples, top)',
                     expected=[node, md, triples, top], observed=[wt[0], wt[1], w[0], w[1], w[3]])
            return
    indent = case['indent']
    ser = case['ser']
    compact = bool(case['seq']) and case['seq'][0] % 2 == 1      # formatting options never matter for what is read back
    d = tempfile.mkdtemp(prefix='pmc_c09_')
    try:
        # ---- serialise
        if ser == 'dumps':
            text = penman.dumps(originals, model=model, indent=indent, compact=compact)
        elif ser == 'dump_stringio':
            buf = io.StringIO()
            penman.dump(originals, buf, model=model, indent=indent, compact=compact)
            text = buf.getvalue()
        elif ser == 'dump_file_utf16':
            p = os.path.join(d, 'dump16.txt')
            import pathlib
            penman.dump(list(originals), pathlib.Path(p), model=model, indent=indent, encoding='utf-16')      # a Path is a file name too
            back = penman.load(pathlib.Path(p), model=model, encoding='utf-16')
            if [_sig(g) for g in back] != want:
                ctx.fail('dump(file name, encoding=utf-16) then load(file name, encoding=utf-16) does not return the graphs', expected=want, observed=[_sig(g) for g in back])
                return
            with open(p, encoding='utf-16', newline='') as fh:
                text = fh.read()
        elif ser == 'dump_file':
            p = os.path.join(d, 'dump.txt')
            with open(p, 'w', encoding='utf-8') as fh:
                fh.write('(stale / content)\n')       # dump must replace whatever the file held
            penman.dump(list(originals) if len(originals) % 2 == 0 else iter(originals), p, model=model, indent=indent, compact=compact)
            with open(p, encoding='utf-8', newline='') as fh:
                text = fh.read()
        else:
            joiner = {'join_blank': '\n\n', 'join_newline': '\n', 'join_space': ' ', 'join_none': ''}[ser]
            text = joiner.join(penman.encode(g, model=model, indent=indent, compact=compact) for g in originals)
        ctx.transitions += 1
        for tname, term in TERMS.items():
            t = text.replace('\n', term)
            lines_no, lines_with = _split_keep(t, term)
            for cont in CONTAINERS:
                try:
                    if cont == 'str':
                        gs = penman.loads(t, model=model)
                        ts = list(penman.iterparse(t))
                    elif cont == 'lines':
                        gs = list(penman.iterdecode(lines_no, model=model))
                        ts = list(penman.iterparse(lines_no))
                    elif cont == 'lines_with_terminators':
                        gs = list(penman.iterdecode(lines_with, model=model))
                        ts = list(penman.iterparse(lines_with))
                    elif cont == 'stream':
                        gs = penman.load(io.StringIO(t, newline=None), model=model)
                        ts = list(penman.iterparse(io.StringIO(t, newline=None)))
                    else:
                        p = os.path.join(d, 'in.txt')
                        with open(p, 'w', encoding='utf-8', newline='') as fh:
                            fh.write(t)
                        if cont == 'filename':
                            gs = penman.load(p, model=model, encoding='utf-8')
                            ts = None
                        else:
                            with open(p, encoding='utf-8') as fh:
                                gs = penman.load(fh, model=model)
                            with open(p, encoding='utf-8') as fh:
                                ts = list(penman.iterparse(fh))
                except Exception as e:      # noqa: BLE001
                    ctx.fail(f'loading raised {type(e).__name__} ({ser}, indent={indent}, {tname}, {cont})', expected=f'{len(want)} graphs', observed=[str(e)[:200], t])
                    return
                ctx.transitions += 1
                ctx.validated += 1
                got = [_sig(g) for g in gs]
                if got != want:
                    ctx.fail(f'graphs loaded from {cont} differ from the original sequence ({ser}, indent={indent}, {tname})', expected=want, observed=[got, t])
                    return
                if ts is not None:
                    gt = [(x.node, dict(x.metadata)) for x in ts]
                    if gt != want_trees:
                        ctx.fail(f'trees parsed from {cont} differ from the original sequence ({ser}, indent={indent}, {tname})', expected=want_trees, observed=[gt, t])
                        return
    finally:
        shutil.rmtree(d, ignore_errors=True)
    if len(want) >= 2 or any(w[3] for w in want):
        ctx.nontrivial += 1
    ctx.outcome((len(want), ser))
