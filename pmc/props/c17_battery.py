"""Call battery for C17: a fixed list of (call, argument) pairs over the public API, and a
canonical, order-preserving rendering of every result.  Importable by the check and
runnable as a script (fresh interpreter, any PYTHONHASHSEED):

    python -m pmc.props.c17_battery            -> JSON {key: canonical result} + PROBE line
"""

import json
import sys

CORPUS = {
    'plain': '(a / alpha :ARG0 (b / beta) :ARG1 (c / gamma :ARG0 b))',
    'aligned': '# ::id 1 ::snt x y\n(a / alpha~e.1 :ARG0~e.2 (b / beta~3) :polarity -~4 :mod-of (c / gamma))',
    'reifiable': '(a / alpha :mod 7 :poss (b / beta :quant 2) :ARG0-of (c / x :location a))',
    'reified': '(a / x :ARG1-of (_ / have-mod-91 :ARG2 (b / y)) :ARG0 (_2 / own-01 :ARG0 b :ARG1 a))',
    'conceptless': '(a :ROLE (b :ROLE a) :q (c / C))',
    'cycle': '(a / A :r (b / B :r (c / C :r a)) :r-of c)',
    'ops': '(a / and :op10 (x / X) :op2 (y / Y) :op1 z :consist-of-of (w / W))',
    'strings': '(a / "s t" :name "q (r" :wiki - :value 0)',
    'single': '(a / alpha)',
    'deep': '(a / A :r (b / B :r (c / C :r (d / D :r-of a) :q d)) :q b)',
    'meta': '# ::k\n# ::snt a ; b\n(a / A :r (b / B))',
    'overinv': '(a / A :ARG0-of-of (b / B) :domain-of 7 :r-of-of-of b)',
    'include': '(w / whole :ARG1-of (i / include-91 :ARG2 (p / piece)) :ARG0 (b / benefit-01 :ARG0 w :ARG1 p))',
}
MARKERLESS = {
    'm_two_unreach': ([('a', ':instance', 'A'), ('b', ':instance', 'B'), ('c', ':instance', 'C'), ('d', ':instance', 'D'), ('a', ':foo', 'x')], 'a'),
    'm_implicit': ([('a', ':instance', 'alpha'), ('b', ':instance', 'B'), ('b', ':r', 'a'), ('a', ':ARG0', 'e')], None),
    'm_shuffled': ([('c', ':r', 'a'), ('a', ':instance', 'A'), ('b', ':r', 'c'), ('c', ':instance', 'C'), ('b', ':instance', 'B'), ('a', ':q', 0)], 'b'),
}


def canonical(x):
    """Order-preserving, JSON-able rendering (sets are sorted: they have no order to observe)."""
    from penman.graph import Graph
    from penman.tree import Tree
    if isinstance(x, Graph):
        return {'Graph': [[list(map(_atom, t)) for t in x.triples], x.top,
                          [[list(map(_atom, k)), [repr(e) for e in v]] for k, v in x.epidata.items()],
                          [list(kv) for kv in x.metadata.items()]]}
    if isinstance(x, Tree):
        return {'Tree': [repr(x.node), [list(kv) for kv in x.metadata.items()]]}
    if isinstance(x, (set, frozenset)):
        return {'set': sorted(map(repr, x))}
    if isinstance(x, dict):
        return {'dict': [[canonical(k), canonical(v)] for k, v in x.items()]}
    if isinstance(x, (list, tuple)):
        return [canonical(v) for v in x]
    if x is None or isinstance(x, (str, int, float, bool)):
        return x
    return repr(x)


def _atom(a):
    return a if a is None or isinstance(a, (str, int, float)) else repr(a)


def build(name):
    """Fresh argument objects for a corpus entry: {'g': Graph, 't': Tree, 's': text, 'h': another Graph}"""
    import penman
    from penman.graph import Graph
    from penman.models.amr import model as amr
    if name in MARKERLESS:
        triples, top = MARKERLESS[name]
        g = Graph(list(triples), top=top)
        s = None
        t = None
    else:
        s = CORPUS[name]
        g = penman.decode(s, model=amr)
        t = penman.parse(s)
    h = penman.decode('# ::id 9\n(a / alpha :ARG0~1 (e / eps~2) :ARG1 (f / phi :ARG0 e))', model=amr)
    return {'g': g, 't': t, 's': s, 'h': h, 'vars': {'a', 'b', '_'}, 'triple': ('a', ':mod', 'b'),
            'three': [('_', ':instance', 'have-mod-91'), ('_', ':ARG1', 'a'), ('_', ':ARG2', 'b')]}


def calls():
    """name -> (needs, function(args, amr)) ; needs = which of g/t/s/h it reads"""
    import penman
    from penman import layout, surface, transform
    from penman.model import Model
    m0 = Model()
    C = {}
    C['decode'] = ('s', lambda a, m: penman.decode(a['s'], model=m))
    C['parse'] = ('s', lambda a, m: penman.parse(a['s']))
    C['loads'] = ('s', lambda a, m: penman.loads(a['s'] + '\n\n' + a['s'], model=m))
    C['encode'] = ('g', lambda a, m: penman.encode(a['g'], model=m))
    C['encode_top_last'] = ('g', lambda a, m: penman.encode(a['g'], top=sorted(a['g'].variables())[-1], model=m, indent=None))
    C['encode_compact'] = ('g', lambda a, m: penman.encode(a['g'], model=m, indent=3, compact=True))
    C['interpret'] = ('t', lambda a, m: layout.interpret(a['t'], m))
    C['configure'] = ('g', lambda a, m: layout.configure(a['g'], model=m))
    C['configure_top'] = ('g', lambda a, m: layout.configure(a['g'], top=sorted(a['g'].variables())[-1], model=m))
    C['reconfigure'] = ('g', lambda a, m: layout.reconfigure(a['g'], model=m))
    C['reconfigure_canonical'] = ('g', lambda a, m: layout.reconfigure(a['g'], model=m, key=m.canonical_order))
    C['reconfigure_alnum'] = ('g', lambda a, m: layout.reconfigure(a['g'], model=m, key=m.alphanumeric_order))
    C['format'] = ('t', lambda a, m: penman.format(a['t']))
    C['format_none_compact'] = ('t', lambda a, m: penman.format(a['t'], indent=None, compact=True))
    C['format_triples'] = ('g', lambda a, m: penman.format_triples(a['g'].triples))
    C['reify_edges'] = ('g', lambda a, m: transform.reify_edges(a['g'], m))
    C['dereify_edges'] = ('g', lambda a, m: transform.dereify_edges(a['g'], m))
    C['reify_attributes'] = ('g', lambda a, m: transform.reify_attributes(a['g']))
    C['indicate_branches'] = ('g', lambda a, m: transform.indicate_branches(a['g'], m))
    C['canonicalize_roles'] = ('t', lambda a, m: transform.canonicalize_roles(a['t'], m))
    C['instances'] = ('g', lambda a, m: [tuple(x) for x in a['g'].instances()])
    C['edges'] = ('g', lambda a, m: [tuple(x) for x in a['g'].edges()])
    C['attributes'] = ('g', lambda a, m: [tuple(x) for x in a['g'].attributes()])
    C['variables'] = ('g', lambda a, m: a['g'].variables())
    C['reentrancies'] = ('g', lambda a, m: a['g'].reentrancies())
    C['str'] = ('g', lambda a, m: str(a['g']))
    C['union'] = ('gh', lambda a, m: a['g'] | a['h'])
    C['union_rev'] = ('gh', lambda a, m: a['h'] | a['g'])
    C['difference'] = ('gh', lambda a, m: a['g'] - a['h'])
    C['difference_rev'] = ('gh', lambda a, m: a['h'] - a['g'])
    C['errors_amr'] = ('g', lambda a, m: m.errors(a['g']))
    C['errors_default'] = ('g', lambda a, m: m0.errors(a['g']))
    C['node_contexts'] = ('g', lambda a, m: layout.node_contexts(a['g']))
    C['appears_inverted'] = ('g', lambda a, m: [layout.appears_inverted(a['g'], t) for t in a['g'].triples])
    C['pushed'] = ('g', lambda a, m: [layout.get_pushed_variable(a['g'], t) for t in a['g'].triples])
    C['alignments'] = ('g', lambda a, m: {k: str(v) for k, v in surface.alignments(a['g']).items()})
    C['role_alignments'] = ('g', lambda a, m: {k: str(v) for k, v in surface.role_alignments(a['g']).items()})
    C['union_alignments'] = ('gh', lambda a, m: {k: str(v) for k, v in surface.alignments(a['h'] | a['g']).items()})
    C['model_reify'] = ('g', lambda a, m: m.reify(a['triple'], a['vars']))
    C['model_reify_twice'] = ('g', lambda a, m: [m.reify(a['triple'], a['vars']), m.reify(a['triple'], a['vars'])])
    C['model_dereify'] = ('g', lambda a, m: m.dereify(*a['three']))
    C['model_invert'] = ('g', lambda a, m: [m.invert(t) for t in a['g'].triples if t[1] != ':instance'])
    C['model_deinvert'] = ('g', lambda a, m: [m.deinvert(t) for t in a['g'].triples])
    C['model_canonicalize'] = ('g', lambda a, m: [m.canonicalize(t) for t in a['g'].triples])
    C['model_keys'] = ('g', lambda a, m: [[m.canonical_order(t[1]), m.alphanumeric_order(t[1]), m0.canonical_order(t[1])] for t in a['g'].triples])
    C['model_reify_undefined'] = ('g', lambda a, m: m.reify(('a', ':foo', 'b')))
    C['format_bare'] = ('t', lambda a, m: penman.format(a['t'].node))
    C['interpret_bare'] = ('t', lambda a, m: layout.interpret(penman.Tree(a['t'].node), m))
    C['tree_bare_write'] = ('t', lambda a, m: _bare_write(a))
    C['sub_or_chain'] = ('g', lambda a, m: _chain(a))
    C['union_str'] = ('gh', lambda a, m: str(a['g'] | a['h']))
    return C


def _chain(a):
    """(g - last three triples) | three new triples with a new source: equal size, different variables"""
    from penman.graph import Graph
    g = a['g']
    r = (g - Graph(g.triples[-3:])) | Graph([('zz', ':instance', 'Z'), ('zz', ':r', 'a'), ('a', ':q', 'zz')])
    f = Graph(list(r.triples), top=r.top)       # an identical graph without any call history

    def q(x):
        return [x.variables(), [tuple(t) for t in x.edges()], [tuple(t) for t in x.attributes()], x.reentrancies(), x.top]
    return {'selfcheck': [q(r), q(f)]}


def _bare_write(a):
    """a client builds its own Tree without metadata and annotates it"""
    import penman
    t = penman.Tree(a['t'].node)
    t.metadata['note'] = 'mine'
    return penman.format(t, indent=None)


def invoke(fn, a, m):
    """Result or the documented-error outcome, both rendered canonically."""
    from penman.exceptions import PenmanError
    try:
        return canonical(fn(a, m))
    except PenmanError as e:
        return {'raised': type(e).__name__}


def applicable(cname, needs, aname):
    if aname in MARKERLESS and ('s' in needs or 't' in needs):
        return False
    return True


def snapshot(args):
    return {k: canonical(v) for k, v in args.items()}


def run_one(cname, aname, C=None, amr=None):
    from penman.models.amr import model
    C = C or calls()
    needs, fn = C[cname]
    a = build(aname)
    return invoke(fn, a, amr or model)


def run_battery():
    from penman.models.amr import model as amr
    C = calls()
    import os
    out = {}
    pairs = [(aname, cname) for aname in list(CORPUS) + list(MARKERLESS) for cname in C if applicable(cname, C[cname][0], aname)]
    if os.environ.get('BATTERY_ORDER') == 'rev':
        pairs.reverse()
    if os.environ.get('BATTERY_MODE') == 'isolated':
        # every (call, argument) in its own forked child: no call sees the effects of another one
        for aname, cname in pairs:
            r, w = os.pipe()
            pid = os.fork()
            if pid == 0:
                try:
                    os.close(r)
                    data = json.dumps(invoke(C[cname][1], build(aname), amr)).encode()
                    with os.fdopen(w, 'wb') as fh:
                        fh.write(data)
                finally:
                    os._exit(0)
            os.close(w)
            with os.fdopen(r, 'rb') as fh:
                data = fh.read()
            os.waitpid(pid, 0)
            out[f'{cname}@{aname}'] = json.loads(data.decode()) if data else {'child': 'no result'}
        return out
    for aname, cname in pairs:
        out[f'{cname}@{aname}'] = invoke(C[cname][1], build(aname), amr)
    return out


CLI_RUNS = [
    (['--amr', '--check'], '(a / alpha :foo b :bar (c / x :baz 1))\n\n(s / swim-01 :ARG0 (i / i))\n'),
    (['--amr', '--reify-edges', '--reify-attributes'], CORPUS['reifiable']),
    (['--amr', '--dereify-edges', '--indicate-branches'], CORPUS['reified']),
    (['--reconfigure', 'canonical', '--rearrange', 'canonical', '--make-variables', 'v{i}'], CORPUS['deep'] + '\n' + CORPUS['aligned']),
    (['--amr', '--canonicalize-roles', '--indent', 'no'], CORPUS['overinv']),
    (['--triples'], CORPUS['strings']),
    (['--amr', '--rearrange', 'inverted-last,alphanumeric'], '(a / x :ARG1-of (b / y) :domain (c / z) :ARG0 (d / w) :mod-of (e / v))'),
    (['--amr', '--rearrange', 'alphanumeric,inverted-last', '--reconfigure', 'canonical'], '(a / x :ARG1-of (b / y) :domain (c / z) :ARG0 (d / w) :mod-of (e / v))'),
]


def run_cli():
    from pmc.engine import cli
    out = {}
    for i, (argv, text) in enumerate(CLI_RUNS):
        code, so, se = cli.run_main(argv, text)
        out[f'cli{i}'] = [code, so]
    return out


def probes():
    """Observed iteration orders of small string sets (what PYTHONHASHSEED can change)."""
    return {'abc': ''.join({'a', 'b', 'c'}), 'triples': ''.join(t[0] for t in {('a', ':r', 'b'), ('b', ':r', 'c'), ('c', ':r', 'a')}),
            'words': ','.join({'alpha', 'beta', 'gamma'})}


def main():
    import os
    here = os.path.dirname(os.path.dirname(os.path.dirname(os.path.abspath(__file__))))
    if here not in sys.path:
        sys.path.insert(0, here)
    from pmc.engine.core import setup_path
    setup_path()
    res = run_battery()
    res.update(run_cli())
    sys.stdout.write(json.dumps(res, sort_keys=True, ensure_ascii=True))
    sys.stdout.write('\nPROBE ' + json.dumps(probes(), sort_keys=True) + '\n')


if __name__ == '__main__':
    main()
