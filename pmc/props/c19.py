"""C19 - triple-conjunction notation round-trips.

Sub-checks:
  single   one triple: 3 sources x 4 roles x (symbol targets + every quoted string over a
           15-character alphabet up to length L) x both line styles x all spacing variants
  lists    all lists of 2-3 triples over a reduced target set x both line styles x
           conjunction-sign variants (uniform and mixed)
  decoded  triples of decoded graphs (trees of the TREE family with string constants)
Oracle: parse_triples(format_triples(ts, indent)) == ts with colon-carrying roles; every
documented spacing variant parses to the same list; agreement with the reference
recogniser pmc.ref.grammar.parse_triples on the reference lexer.
"""

import itertools

from pmc.domains import trees as T
from pmc.ref import grammar as G
from pmc.ref import lexer as L

ID = 'C19'
TITLE = 'Triple-conjunction notation round-trips'
SOURCES = ['a', 'b1', '_x']
ROLES = [':instance', ':ARG0', ':op1', ':ARG0-of', 'ARG0']     # the last one is given without its colon: it must come back with it
SYMBOLS = ['b', '7', '-1.5', '1,000', ',x', '^', '^y', 'a^b', '-']
SIGMA = ['"', '\\', 'a', ' ', '(', ')', ':', '~', '/', ',', '^', '#', '\u00e9', '\t', '\u2028']
RULE = ('complete product of sources x roles x targets (symbols and all quoted strings up to the length bound) and of short lists; '
        'non-trivial = target is a quoted string or the list has more than one triple')
ASSUMPTIONS = [
    'a role given without its leading colon is in the domain (it must come back with the colon); roles with several leading colons are not',
    'sources containing a comma cannot be written (the comma is the separator) and are excluded; targets None and the anonymous role cannot be expressed in the notation',
    'quoted strings escape only the quote and the backslash; characters that would need other escapes (line breaks, controls) are produced via penman.constant.quote in C18, not here',
]


def quote(x):
    return '"' + x.replace('\\', '\\\\').replace('"', '\\"') + '"'


def shards(tier, seed):
    out = []
    L_ = 3 if tier == 'quick' else 4
    for s in SOURCES:
        for r in ROLES:
            out.append({'sub': 'single', 'source': s, 'role': r, 'L': L_, 'bounds': f'single triples: symbols + all quoted strings of length <= {L_} over {len(SIGMA)} chars, all spacing variants'})
    n = 3 if tier == 'quick' else 4
    for first in range(len(_small_triples())):
        out.append({'sub': 'lists', 'first': first, 'n': n, 'bounds': f'lists of 2..{n} triples over {len(_small_triples())} triples, 6 conjunction styles'})
    T.ALPHABETS['c19'] = {'concepts': ['x', '"a b"'], 'roles': [':ARG0', ':op1-of'], 'atoms': ['k', '"s (t"', '"^"', '7'], 'refs': 'all'}
    out += T.shard_list(3, 3, 3, 'c19', extra={'sub': 'decoded', 'bounds': 'triples of decoded TREE(3,3,3) with string constants'})
    return out


def _small_triples():
    ts = []
    for s in ('a', 'b1'):
        for r in (':instance', ':ARG0-of'):
            for t in ('b', '1,000', '^y', quote('x y'), quote('^ q('), quote('\\'), quote('a", b')):
                ts.append((s, r, t))
    return ts


def cases(shard):
    sub = shard['sub']
    if sub == 'single':
        targets = list(SYMBOLS)
        for n in range(0, shard['L'] + 1):
            for t in itertools.product(SIGMA, repeat=n):
                targets.append(quote(''.join(t)))
        for t in targets:
            yield {'ts': [[shard['source'], shard['role'], t]]}
    elif sub == 'lists':
        st = _small_triples()
        first = st[shard['first']]
        for n in range(1, shard['n']):
            for rest in itertools.product(st, repeat=n):
                yield {'ts': [list(first)] + [list(x) for x in rest]}
    else:
        for t in T.shard_trees(shard):
            yield {'t': t}


COMMA = [',', ', ', ' ,', ' , ']
CONJ = ['^', ' ^', ' ^ ', '^ ', ' ^\n', '\n^ ']


def _render(ts, comma, conjs):
    parts = []
    for (s, r, t) in ts:
        parts.append(f'{r.lstrip(":")}({s}{comma}{t})')
    out = parts[0]
    for k, p in enumerate(parts[1:]):
        out += conjs[k % len(conjs)] + p
    return out


def check(case, ctx):
    import penman
    if 't' in case:
        from penman.tree import Tree
        t = T.totuple(case['t'])
        g = penman.interpret(Tree(t))
        ts = [tuple(x) for x in g.triples if x[2] is not None]
    else:
        ts = [tuple(x) for x in case['ts']]
    if not ts:
        return
    given = ts
    ts = [(s, r if r.startswith(':') else ':' + r, t) for s, r, t in given]      # every role comes back carrying its colon
    for indent in (True, False):
        try:
            s = penman.format_triples(given, indent=indent)
            back = penman.parse_triples(s)
        except Exception as e:      # noqa: BLE001
            ctx.fail(f'format_triples/parse_triples raised {type(e).__name__} (indent={indent})', observed=str(e)[:300], expected=ts)
            return
        ctx.transitions += 1
        if [tuple(x) for x in back] != ts:
            ctx.fail(f'parse_triples(format_triples(ts, indent={indent})) != ts', expected=ts, observed=back)
            return
        ctx.validated += 1
        if 't' in case:
            from penman.codec import PENMANCodec
            codec = PENMANCodec()
            back_c = codec.parse_triples(codec.format_triples(given, indent=indent))
            ctx.transitions += 1
            if [tuple(x) for x in back_c] != ts:
                ctx.fail(f'PENMANCodec.parse_triples(PENMANCodec.format_triples(ts, indent={indent})) != ts', expected=ts, observed=back_c)
                return
        ref = G.parse_triples(L.lex(s, triple=True))
        if ref[0] != 'ok' or ref[1] != ts:
            ctx.fail('reference recogniser disagrees on the formatted text (harness or notation problem)', expected=ts, observed=list(ref))
            return
    if 't' in case:
        ctx.nontrivial += 1
        return
    # spacing variants: every comma style x every conjunction style, plus mixed conjunction styles
    conj_sets = [[c] for c in CONJ]
    if len(ts) >= 3:
        conj_sets += [list(p) for p in itertools.permutations(CONJ[:4], 2)]
    for comma in COMMA:
        for conjs in conj_sets:
            s = _render(ts, comma, conjs)
            # the reference decides what this spelling denotes (e.g. "a,^y" glues differently from "a, ^y")
            ref = G.parse_triples(L.lex(s, triple=True))
            try:
                back = ('ok', [tuple(x) for x in penman.parse_triples(s)])
            except penman.DecodeError as e:
                back = ('err', e.lineno, e.offset)
            except Exception as e:      # noqa: BLE001
                ctx.fail(f'parse_triples raised {type(e).__name__} on a spacing variant', observed=[s, str(e)[:200]])
                return
            ctx.transitions += 1
            ctx.validated += 1
            if back[0] != ref[0] or (back[0] == 'ok' and back[1] != ref[1]) or (back[0] == 'err' and back[1:3] != ref[1:3]):
                ctx.fail('spacing variant: parse_triples differs from the reference recogniser', expected=list(ref), observed=[s, list(back)])
                return
            # documented variants must denote the same list whenever the pieces cannot glue into other symbols
            glue_free = all(not t[2].startswith((',', '^')) and ',' not in t[2] or t[2].startswith('"') for t in ts) and \
                all('^' not in t[0] and ',' not in t[0] for t in ts) and all('^' not in t[2] or t[2].startswith('"') for t in ts)
            if glue_free and (back[0] != 'ok' or back[1] != ts):
                ctx.fail('documented spacing variant does not parse to the same triples', expected=ts, observed=[s, list(back)])
                return
    if len(ts) > 1 or ts[0][2].startswith('"'):
        ctx.nontrivial += 1
    ctx.outcome(repr(ts)[:60])
