"""C12 - every transformation returns a well-formed graph that serialises faithfully.

Explicit-state search over transformation programs: initial states are the decoding of
every well-formed tree of a family, its marker-less twin and four edited variants (one
marker list deleted, explicit non-default top, implicit top with the relations listed first,
one attribute appended); operations are
reify_edges, dereify_edges, reify_attributes, indicate_branches (at most once per program);
all programs up to a length bound, states de-duplicated on (triples, markers, top).
Checked after every step: no exception; same top; every source has a node; encodes and
decodes to itself; arguments untouched; the specific laws of reify_attributes and
indicate_branches.
"""

import copy

from pmc.domains import models as M
from pmc.domains import trees as T
from pmc.ref import interp as RI

ID = 'C12'
TITLE = 'Every transformation returns a well-formed graph that serialises faithfully'
RULE = ('BFS over programs from every well-formed connected tree of the family (5 initial variants each); non-trivial = at least one '
        'step changed the graph')
ASSUMPTIONS = [
    'initial graphs are well-formed (one instance triple per variable, distinct triples, connected) as the statement requires; results are only required to have a node for every source, to encode and to decode to themselves',
    'program length: 2 (quick) / 3 (thorough) on the larger family, one more on the smaller one; at most one indicate_branches per program, as stated',
    'models: DEFAULT (no reifications), AMR, MINI',
]

T.ALPHABETS['c12amr'] = {'concepts': ['x', 'have-mod-91'], 'roles': [':mod', ':ARG1-of', ':ARG2', ':polarity-of~1'], 'atoms': ['-', '_'], 'refs': 'all'}
T.ALPHABETS['c12small'] = {'concepts': ['x', 'have-mod-91'], 'roles': [':mod', ':mod-of', ':ARG1-of', ':ARG1', ':ARG2', ':polarity', ':quant~e.1'], 'atoms': ['-', '7~2', '_', '_2'], 'refs': 'all+aligned0'}
T.ALPHABETS['c12chain'] = {'concepts': ['x', 'have-mod-91'], 'roles': [':ARG1-of', ':ARG2', ':ARG1'], 'atoms': ['-'], 'refs': 'none'}
T.ALPHABETS['c12chainq'] = {'concepts': ['x', 'have-mod-91'], 'roles': [':ARG1-of', ':ARG2'], 'atoms': ['-'], 'refs': 'none'}
T.ALPHABETS['c12def'] = {'concepts': [T.ABSENT, 'x'], 'roles': [':r', ':r-of'], 'atoms': ['k', '_'], 'refs': 'all'}

OPS = ['reify_edges', 'dereify_edges', 'reify_attributes', 'indicate_branches']


def shards(tier, seed):
    out = []
    q = tier == 'quick'
    k = 2 if q else 3
    b = f'programs of length <= {k + 1} from TREE(2,2,2)/(3,2,3) small AMR alphabet; length <= {k} from TREE(3,3,3) AMR/MINI/DEFAULT alphabets; 5 initial variants each; length <= {1 if q else 2} from TREE(4,4,4) chains of reified nodes' + (' (2 roles; and a VERIF_SEED-chosen third of the TREE(3,3,3) AMR family)' if q else '')
    out += T.shard_list(3, 2, 3, 'c12small', extra={'sub': 'programs', 'model': 'AMR', 'k': k + 1 if not q else k, 'bounds': b})
    out += T.shard_list(2, 2, 2, 'c12small', extra={'sub': 'programs', 'model': 'AMR', 'k': k + 1, 'bounds': b})
    big = T.shard_list(3, 3, 3, 'c12amr', pin=3, extra={'sub': 'programs', 'model': 'AMR', 'k': k, 'bounds': b})
    out += big[seed % 3::3] if q else big
    out += T.shard_list(3, 2, 3, 'c12amr', extra={'sub': 'programs', 'model': 'MINI', 'k': k, 'bounds': b})
    out += T.shard_list(3, 3, 3, 'c12def', extra={'sub': 'programs', 'model': 'DEFAULT', 'k': k, 'bounds': b})
    out += T.shard_list(4, 4, 4, 'c12chainq' if q else 'c12chain', pin=3, extra={'sub': 'programs', 'model': 'AMR', 'k': 1 if q else 2, 'bounds': b})
    return out


def cases(shard):
    for t in T.shard_trees(shard):
        yield {'t': t, 'model': shard['model'], 'k': shard['k']}


def _snap(g):
    return (tuple(g.triples), tuple((k, tuple(map(repr, v))) for k, v in g.epidata.items()), g.top, tuple(g.metadata.items()))


def _apply(op, g, pm):
    from penman import transform
    if op == 'reify_edges':
        return transform.reify_edges(g, pm)
    if op == 'dereify_edges':
        return transform.dereify_edges(g, pm)
    if op == 'reify_attributes':
        return transform.reify_attributes(g)
    return transform.indicate_branches(g, pm)


def _wellformed_result(g, rm):
    sources = {s for s, _, _ in g.triples}
    with_node = {s for s, r, _ in g.triples if r == ':instance'}
    missing = sources - with_node
    if missing:
        return f'sources without a node (instance triple): {sorted(map(repr, missing))}'
    if g.top not in sources:
        return f'top {g.top!r} is not a node'
    reach = RI.weakly_connected(list(g.triples), g.top)
    if reach != sources:
        return f'not connected: {sorted(map(repr, sources - reach))} unreachable from the top'
    return None


def check(case, ctx):
    import penman
    from penman import layout
    from penman.graph import Graph
    from penman.layout import Push
    from penman.tree import Tree
    t = T.totuple(case['t'])
    name = case['model']
    pm, rm = M.get(name)
    if not RI.well_formed_tree(t, rm):
        ctx.cats['not_well_formed'] += 1
        return
    g0 = layout.interpret(Tree(t, metadata={'id': '1'}), pm)
    if any(v is None for v in g0.variables()):
        return
    triples = list(g0.triples)
    variables = sorted(g0.variables())
    inits = [('decoded', g0), ('markerless', Graph(triples, top=g0.top))]
    if len(triples) > 1:
        e2 = dict(g0.epidata)
        e2.pop(triples[1], None)
        inits.append(('one marker list deleted', Graph(triples, top=g0.top, epidata=e2)))
    if len(variables) > 1:
        inits.append(('explicit other top', Graph(triples, top=variables[-1], epidata=g0.epidata)))
    reordered = [tr for tr in triples if tr[1] != ':instance'] + [tr for tr in triples if tr[1] == ':instance']
    if reordered != triples:
        inits.append(('implicit top, relations first', Graph(reordered)))
    extra = (variables[0], ':polarity', '-')
    if extra not in triples:
        inits.append(('attribute appended', Graph(triples + [extra], top=g0.top, epidata=g0.epidata)))
    changed = False
    for label, ginit in inits:
        seen = {_snap(ginit)}
        frontier = [([label], ginit, False)]
        depth = 0
        while depth < case['k'] and frontier:
            nxt = []
            for hist, g, indicated in frontier:
                for op in OPS:
                    if op == 'indicate_branches' and indicated:
                        continue
                    where = hist + [op]
                    before = _snap(g)
                    try:
                        g2 = _apply(op, g, pm)
                    except Exception as e:      # noqa: BLE001
                        ctx.fail(f'{op} raised {type(e).__name__} under {name}', observed=str(e)[:200], expected='a graph',
                                 case={'t': case['t'], 'model': name, 'k': case['k'], 'program': where})
                        return
                    ctx.transitions += 1
                    ctx.validated += 1     # reference well-formedness / content / laws evaluated for this transition
                    if _snap(g) != before:
                        ctx.fail(f'{op} modified its argument under {name}', case={'t': case['t'], 'model': name, 'k': case['k'], 'program': where})
                        return
                    if g2.top != g.top:
                        ctx.fail(f'{op} changed the top under {name}', expected=g.top, observed=g2.top, case={'t': case['t'], 'model': name, 'k': case['k'], 'program': where})
                        return
                    why = _wellformed_result(g2, rm)
                    if why:
                        ctx.fail(f'{op} returned an ill-formed graph under {name}: {why}', observed=list(g2.triples), expected=list(g.triples),
                                 case={'t': case['t'], 'model': name, 'k': case['k'], 'program': where})
                        return
                    try:
                        s = penman.encode(g2, model=pm, indent=None)
                        g3 = penman.decode(s, model=pm)
                    except Exception as e:      # noqa: BLE001
                        ctx.fail(f'result of {op} does not encode/decode ({type(e).__name__}) under {name}', observed=str(e)[:200],
                                 case={'t': case['t'], 'model': name, 'k': case['k'], 'program': where})
                        return
                    ctx.transitions += 1
                    c2 = RI.content(g2.triples, g2.top, rm)
                    c3 = RI.content(g3.triples, g3.top, rm, deinvert=False)
                    if c2 != c3:
                        ctx.fail(f'result of {op} does not decode to itself under {name}', expected=c2['triples'], observed=[c3['triples'], s],
                                 case={'t': case['t'], 'model': name, 'k': case['k'], 'program': where})
                        return
                    if op == 'reify_attributes':
                        why = _reify_attr_law(g, g2)
                    elif op == 'indicate_branches':
                        # the count clause needs faithful markers: only asserted directly on a decoded graph
                        why = _indicate_law(g, g2, pm, count=(hist == ['decoded']))
                    else:
                        why = None
                    if why:
                        ctx.fail(f'{op}: {why} under {name}', expected=list(g.triples), observed=list(g2.triples),
                                 case={'t': case['t'], 'model': name, 'k': case['k'], 'program': where})
                        return
                    sn = _snap(g2)
                    if sn not in seen:
                        seen.add(sn)
                        changed = True
                        nxt.append((where, g2, indicated or op == 'indicate_branches'))
            frontier = nxt
            depth += 1
        ctx.cats['states'] += len(seen)
        ctx.max_depth = max(ctx.max_depth, depth)
    if changed:
        ctx.nontrivial += 1


def _reify_attr_law(g, g2):
    if g2.attributes():
        return f'attributes left: {[tuple(a) for a in g2.attributes()]}'
    old_vars = g.variables()
    new_vars = g2.variables() - old_vars
    concept = {}
    for s, r, tg in g2.triples:
        if s in new_vars and r == ':instance':
            concept[s] = tg
    back = []
    for s, r, tg in g2.triples:
        if s in new_vars:
            if r != ':instance':
                return f'new node {s} has a relation of its own'
            continue
        if r != ':instance' and tg in new_vars:
            back.append((s, r, concept.get(tg)))
        else:
            back.append((s, r, tg))
    if back != list(g.triples):
        return f'contracting the new nodes does not give back the original triples: {back}'
    return None


def _indicate_law(g, g2, pm, count=True):
    from penman.layout import Push
    top_role = pm.top_role
    pushes = 0
    for tr in g.triples:
        for e in g.epidata.get(tr, []):
            if isinstance(e, Push):
                pushes += 1
                break
    added = len(g2.triples) - len(g.triples)
    if count and added != pushes:
        return f'{added} triples added for {pushes} nested nodes'
    # removing one TOP triple per nested node restores the original
    rest = list(g2.triples)
    orig = list(g.triples)
    i = j = 0
    removed = 0
    while i < len(rest):
        if j < len(orig) and rest[i] == orig[j]:
            i += 1
            j += 1
        elif rest[i][1] == top_role:
            removed += 1
            i += 1
        else:
            return 'a triple other than a top-role triple was added or the order changed'
    if j != len(orig) or (count and removed != pushes):
        return 'removing the top-role triples does not give back the original triples'
    return None
