"""C14 - layout diagnostics agree with the text the graph was decoded from.

Space: interpret(t) of well-formed trees x {DEFAULT, AMR, MINI}; the same triple
lists as marker-less graphs for the "unknown instead of raising" clause.
Oracle: the side table of the reference interpretation (pmc.ref.interp rows):
context, pushed variable, written-inverted flag.
"""

import copy

from pmc.domains import models as M
from pmc.domains import trees as T
from pmc.ref import interp as RI
from pmc.props import c02 as _c02   # registers the c02roles alphabet

ID = 'C14'
TITLE = 'Layout diagnostics agree with the text the graph was decoded from'
RULE = ('every decoration of every tree shape within the bounds, filtered by well-formedness (reference); '
        'non-trivial = well-formed and at least one nested node or re-entrancy')
ASSUMPTIONS = [
    'on marker-less graphs only "no exception, answer is None/a variable or a bool" is asserted (the statement says unknown/False instead of raising)',
    'appears_inverted is asserted only for triples whose source and target differ, as stated',
]


def shards(tier, seed):
    out = []
    q = tier == 'quick'
    ms = ['DEFAULT', 'AMR']
    out += T.shard_list(3, 2, 3, 'wide', extra={'sub': 'wide', 'models': ms, 'bounds': 'TREE(3,2,3) wide'})
    if q:
        out += T.shard_list(3, 3, 3, 'mid', extra={'sub': 'mid', 'models': ms, 'bounds': 'TREE(3,3,3) mid'})
        out += T.shard_list(4, 4, 4, 'narrow', extra={'sub': 'narrow', 'models': ['DEFAULT'], 'bounds': 'TREE(4,4,4) narrow'})
        out += T.shard_list(3, 3, 3, 'c02roles', extra={'sub': 'modelroles', 'models': ['AMR', 'MINI'], 'bounds': 'TREE(3,3,3) model roles'})
    else:
        out += T.shard_list(3, 4, 3, 'mid', pin=3, extra={'sub': 'mid', 'models': ms, 'bounds': 'TREE(3,4,3) mid'})
        out += T.shard_list(4, 5, 4, 'narrow', pin=3, extra={'sub': 'narrow', 'models': ['DEFAULT'], 'bounds': 'TREE(4,5,4) narrow'})
        out += T.shard_list(3, 4, 3, 'c02roles', pin=3, extra={'sub': 'modelroles', 'models': ['AMR', 'MINI'], 'bounds': 'TREE(3,4,3) model roles'})
    return out


def cases(shard):
    ms = shard['models']
    for t in T.shard_trees(shard):
        yield {'t': t, 'models': ms}


def check(case, ctx):
    from penman import layout
    from penman.graph import Graph
    from penman.tree import Tree
    t = T.totuple(case['t'])
    for name in case['models']:
        pm, rm = M.get(name)
        if not RI.well_formed_tree(t, rm):
            ctx.cats['not_well_formed'] += 1
            continue
        want = RI.interpret(t, rm)
        rows = want['rows']
        try:
            for r in rows:
                pm.has_role(r['triple'][1])      # a client may validate the roles first (pure calls)
            g = layout.interpret(Tree(t), pm)
            if ctx.sub == 'modelroles':
                import penman
                gs = penman.loads(penman.format(Tree(t)), model=pm)      # the stream entry point must use the model too
                if len(gs) != 1 or list(gs[0].triples) != list(g.triples):
                    ctx.fail(f'loads(text, model) reads the text differently from interpret(tree, model) under {name}', expected=list(g.triples), observed=[list(x.triples) for x in gs])
                    return
            ctxs = layout.node_contexts(g)
            pushed = [layout.get_pushed_variable(g, r['triple']) for r in rows]
            inv = [layout.appears_inverted(g, r['triple']) for r in rows]
        except Exception as e:      # noqa: BLE001
            ctx.fail(f'diagnostics raised {type(e).__name__} on a decoded graph under {name}', observed=str(e)[:200])
            return
        ctx.transitions += 3
        ctx.validated += 1
        wctx = [r['context'] for r in rows]
        if list(ctxs) != wctx:
            ctx.fail(f'node_contexts differs from the node that wrote each triple under {name}', expected=wctx, observed=list(ctxs))
            return
        wp = [r['pushed'] for r in rows]
        if pushed != wp:
            ctx.fail(f'get_pushed_variable differs from the nested node each branch opened under {name}', expected=wp, observed=pushed)
            return
        for r, got in zip(rows, inv):
            s, _, tg = r['triple']
            if s != tg and bool(got) != r['inverted']:
                ctx.fail(f'appears_inverted wrong for {r["triple"]} under {name}', expected=r['inverted'], observed=got)
                return
            if got not in (True, False):
                ctx.fail('appears_inverted did not return a bool', observed=repr(got))
                return
        gc = copy.deepcopy(g)      # markers equal to, not identical with, the POP singleton
        if list(layout.node_contexts(gc)) != wctx or [bool(layout.appears_inverted(gc, r['triple'])) for r in rows] != [bool(x) for x in inv]:
            ctx.fail(f'diagnostics differ on a deep copy of the decoded graph under {name}', expected=wctx, observed=list(layout.node_contexts(gc)))
            return
        ctx.transitions += 1
        if any(r['pushed'] for r in rows):
            ctx.cats['has_nested'] += 1
        if any(r['inverted'] for r in rows):
            ctx.cats['has_written_inverted'] += 1
        if any(r['closes'] >= 2 for r in rows):
            ctx.cats['multi_close'] += 1
        # marker-less twin
        g2 = Graph(want['triples'], top=want['top'])
        variables = g2.variables()
        try:
            c2 = layout.node_contexts(g2)
            for tr in want['triples']:
                p = layout.get_pushed_variable(g2, tr)
                a = layout.appears_inverted(g2, tr)
                if p is not None:
                    ctx.fail('get_pushed_variable invented a nested node on a marker-less graph', expected=None, observed=p)
                    return
                if a not in (True, False):
                    ctx.fail('appears_inverted did not return a bool on a marker-less graph', observed=repr(a))
                    return
        except Exception as e:      # noqa: BLE001
            ctx.fail(f'diagnostics raised {type(e).__name__} on a marker-less graph under {name}', observed=str(e)[:200], expected='None / False')
            return
        ctx.transitions += 1
        if len(c2) != len(want['triples']) or any(c is not None and not (c == tr[0] or (c == tr[2] and tr[1] != ':instance' and c in variables)) for c, tr in zip(c2, want['triples'])):
            ctx.fail('node_contexts on a marker-less graph: wrong length, or a context that is neither unknown nor an end of its triple', observed=list(c2))
            return
        ctx.nontrivial += 1
    ctx.outcome(repr(t))
