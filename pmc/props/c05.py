"""C05 - re-layout operations never change the graph.

Explicit-state search: a state is a graph (triples in order, marker lists, top);
initial states are the decodings of every well-formed tree of a family and their
marker-less twins; operations are
    R(key)        reconfigure(g, key) then interpret
    A(key, af)    configure, rearrange(t, key, attributes_first=af), interpret
    T(v)          encode(g, top=v) then decode
    RT(v)         reconfigure(g, top=v, key=canonical) then interpret
chained to a depth bound, states de-duplicated on (triples, markers, top).
Invariant in every state: content equals the content of the initial state (same
top for R and A, top = v for T).  For A additionally the ordering specification
of the statement, evaluated branch list by branch list (pmc reference keys).
random.random is owned: replaced by a scripted source, every rank vector of
up to 3 branches is explored.
"""

import itertools
import re

from pmc.domains import models as M
from pmc.domains import trees as T
from pmc.ref import interp as RI

ID = 'C05'
TITLE = 'Re-layout operations never change the graph'
RULE = ('BFS over operation histories from every well-formed tree of the family (decoded, and as marker-less graph); '
        'non-trivial = initial graph with at least two relations')
ASSUMPTIONS = [
    'collision roles are not in the alphabets (their inversion cannot be written)',
    'for the random key only the invariants (content, branch multiset per node, concept first) are asserted; its answers are scripted, not seeded',
    'keys explored: none, original, alphanumeric, canonical, random (3 scripted answer sequences), and the tool\'s inverted-last; the quick tier drops original and two of the random scripts',
    'depth of operation histories: 2 (quick) / 3 (thorough) from the decoded graph, one less from its marker-less twin and its deep copy',
]

T.ALPHABETS['c05x'] = {'concepts': ['x'], 'roles': [':op2', ':op10~e.1', ':r-of', ':op1-of~e.2'], 'atoms': ['k', '"s"~2'], 'refs': 'all+aligned0'}
T.ALPHABETS['c05'] = {'concepts': [T.ABSENT, 'x'], 'roles': [':op2', ':op10~1', ':r-of', ':op1-of~x.2'], 'atoms': ['k', '"s"~2'], 'refs': 'all+aligned0'}
T.ALPHABETS['c05amr'] = {'concepts': ['x'], 'roles': [':ARG1', ':ARG0-of~e.2', ':consist-of', ':mod-of'], 'atoms': ['k'], 'refs': 'all'}
T.ALPHABETS['c05mini'] = {'concepts': ['x'], 'roles': [':ARG1', ':consist-of-of', ':op10', ':op2~1'], 'atoms': ['k'], 'refs': 'all'}
T.ALPHABETS['c05n'] = {'concepts': [T.ABSENT, 'x'], 'roles': [':op2', ':op10', ':r-of'], 'atoms': ['k'], 'refs': 'all'}

KEYS = ['none', 'original', 'alphanumeric', 'canonical', 'inverted-last', 'random0', 'random1', 'random2']
KEYS_QUICK = ['none', 'alphanumeric', 'canonical', 'inverted-last', 'random1']


def shards(tier, seed):
    out = []
    q = tier == 'quick'
    d = 2 if q else 3
    out += T.shard_list(3, 2, 3, 'c05', pin=4, extra={'sub': 'bfs', 'q': int(q), 'names2': 1, 'depth': d, 'model': 'DEFAULT', 'bounds': f'op histories of depth {d} from TREE(3,2,3); depth {d - 1} from TREE(3,3,3) (DEFAULT, AMR roles; quick: VERIF_SEED-chosen quarter) and TREE(3,2,3) MINI roles; depth 1 from TREE(4,4,3) narrow (quick: one eighth)'})
    mid = T.shard_list(3, 3, 3, 'c05x', pin=3, extra={'sub': 'bfs', 'q': int(q), 'depth': d - 1, 'model': 'DEFAULT', 'bounds': ''})
    out += mid[seed % 4::4] if q else mid
    amr = T.shard_list(3, 3, 3, 'c05amr', pin=3, extra={'sub': 'bfs', 'q': int(q), 'depth': d - 1, 'model': 'AMR', 'bounds': ''})
    out += amr[seed % 4::4] if q else amr
    out += T.shard_list(3, 2, 3, 'c05mini', extra={'sub': 'bfs', 'q': int(q), 'depth': d - 1, 'model': 'MINI', 'bounds': ''})
    big = T.shard_list(4, 4, 3, 'c05n', pin=3, extra={'sub': 'bfs', 'q': int(q), 'depth': 1, 'model': 'DEFAULT', 'bounds': ''})
    out += big[seed % 8::8] if q else big
    return out


def cases(shard):
    for t in T.shard_trees(shard):
        yield {'t': t, 'depth': shard['depth'], 'model': shard['model'], 'q': shard.get('q', 0)}
        if shard.get('names2'):
            yield {'t': t, 'depth': 1, 'model': shard['model'], 'q': shard.get('q', 0), 'names2': 1}


# ---------------------------------------------------------------- reference sort keys

def ref_alnum(role):
    m = re.fullmatch(r'(.*[^0-9])([0-9]+)', role, flags=re.S)
    if m:
        return (m.group(1), int(m.group(2)))
    return (role, 0)


def ref_key(name, rm):
    if name in ('none', 'original'):
        return lambda role: 0
    if name == 'alphanumeric':
        return ref_alnum
    if name == 'canonical':
        return lambda role: (rm.is_inverted(role), ref_alnum(role))
    if name == 'inverted-last':
        return lambda role: rm.is_inverted(role)
    return None


class Script:
    """Owned replacement for random.random: a fixed cyclic sequence of answers."""

    SEQS = {'random0': [0.5, 0.5, 0.5], 'random1': [0.9, 0.1, 0.5, 0.7, 0.3], 'random2': [0.1, 0.9, 0.9, 0.0, 0.5, 0.2]}

    def __init__(self, name):
        self.seq = self.SEQS[name]
        self.i = 0

    def random(self):
        v = self.seq[self.i % len(self.seq)]
        self.i += 1
        return v


def impl_key(name, pm):
    import penman.model as pmodel
    if name == 'none':
        return None, None
    if name == 'original':
        return pm.original_order, None
    if name == 'alphanumeric':
        return pm.alphanumeric_order, None
    if name == 'canonical':
        return pm.canonical_order, None
    if name == 'inverted-last':
        return pm.is_role_inverted, None
    script = Script(name)
    return pm.random_order, script


# ---------------------------------------------------------------- rearrange specification

def _branch_spec_ok(before, after, variables, keyname, af, rm):
    """after must be: leading '/' kept, rest = stable sort of before's rest by (is_edge if af, key)."""
    bvar, bb = before
    avar, ab = after
    if bvar != avar or len(bb) != len(ab):
        return 'node variable or number of branches changed'
    if bb and bb[0][0] == '/':
        if not ab or ab[0] != bb[0]:
            return 'concept branch is no longer first/unchanged'
        brest, arest = bb[1:], ab[1:]
    else:
        brest, arest = bb, ab

    def strip(b):
        role, tgt = b
        return (role, tgt[0] if not RI.is_atomic(tgt) else tgt)
    # same multiset (nested nodes compared by variable)
    if sorted(map(repr, map(strip, brest))) != sorted(map(repr, map(strip, arest))):
        return 'set of branches of a node changed'
    kf = ref_key(keyname, rm)
    if kf is not None:
        def full(b):
            role, tgt = b
            base, _ = RI.split_role(role)
            if RI.is_atomic(tgt):
                name, _ = RI.split_atom(tgt)
                edge = name in variables
            else:
                edge = True
            return ((edge if af else False), kf(base))
        want = sorted(brest, key=full)
        if [strip(b) for b in want] != [strip(b) for b in arest]:
            return 'branches are not in the stable key order (attributes first: %s)' % af
    # recurse into nested nodes (match by position in `after`, find the same child in before)
    children = {b[1][0]: b[1] for b in brest if not RI.is_atomic(b[1])}
    for role, tgt in arest:
        if not RI.is_atomic(tgt):
            r = _branch_spec_ok(children[tgt[0]], tgt, variables, keyname, af, rm)
            if r:
                return r
    return None


# ---------------------------------------------------------------- exploration

def _snapshot(g):
    return (tuple(g.triples), tuple((k, tuple(map(repr, v))) for k, v in g.epidata.items() if v), g.top)


def check(case, ctx):
    import copy
    import penman
    import penman.model as pmodel
    from penman import layout
    from penman.graph import Graph
    from penman.tree import Tree
    t = T.totuple(case['t'])
    name = case['model']
    pm, rm = M.get(name)
    if not RI.well_formed_tree(t, rm):
        ctx.cats['not_well_formed'] += 1
        return
    g0 = layout.interpret(Tree(t), pm)
    if case.get('names2'):
        # decoded from text with two-character variable names: every mention is a distinct str object
        from pmc.props.c10 import ref_apply
        t = ref_apply(t, {'a': 'a1', 'b': 'b2', 'c': 'c3', 'd': 'd4'})
        g0 = penman.decode(penman.format(Tree(t)), model=pm)
    variables = sorted(g0.variables())
    base_triples = list(g0.triples)
    wants = {v: RI.content(base_triples, v, rm) for v in variables}
    inits = [('decoded', g0), ('markerless', Graph(base_triples, top=g0.top)), ('decoded+deepcopy', copy.deepcopy(g0)),
             ('hand-built, implicit top', Graph(base_triples))]      # no top given: it is the source of the first triple
    wants_of = {label: wants for label, _ in inits}
    attrs = [x for x in base_triples if x[1] != ':instance' and x[2] not in g0.variables()]
    if attrs:
        # a graph may legitimately state a triple twice (penman issue 34): both copies are content
        k = base_triples.index(attrs[0])
        dup_triples = base_triples[:k + 1] + [attrs[0]] + base_triples[k + 1:]
        inits.append(('decoded, one attribute stated twice', Graph(dup_triples, top=g0.top, epidata=copy.deepcopy(g0.epidata))))
        wants_of['decoded, one attribute stated twice'] = {v: RI.content(dup_triples, v, rm) for v in variables}
    # a client may have used the sort keys of other models on the same roles before (shared caches must not matter)
    for other in ('DEFAULT', 'AMR', 'MINI'):
        if other != name:
            om = M.get(other)[0]
            for tr in base_triples:
                om.canonical_order(tr[1])
                om.alphanumeric_order(tr[1])
                om.is_role_inverted(tr[1])
    keys = KEYS_QUICK if case.get('q') else KEYS
    ops = [('R', k, None) for k in keys] + [('A', k, af) for k in keys for af in (False, True)] + [('T', v, None) for v in variables] + [('RT', v, None) for v in variables]
    seen = set()
    frontier = []
    for label, g in inits:
        seen.add(_snapshot(g))
        frontier.append(([label], g))
    shallow = {'markerless', 'decoded+deepcopy', 'hand-built, implicit top', 'decoded, one attribute stated twice'}      # these initial variants are explored one level less deep
    depth = 0
    real_random = pmodel.random
    try:
        while depth < case['depth']:
            nxt = []
            for hist, g in frontier:
                if hist[0] in shallow and depth >= max(1, case['depth'] - 1):
                    continue
                for op in ops:
                    kind, arg, af = op
                    before = _snapshot(g)
                    top_expected = g.top
                    try:
                        if kind == 'R':
                            key, script = impl_key(arg, pm)
                            if script:
                                pmodel.random = script
                            tr = layout.reconfigure(g, model=pm, key=key)
                            pmodel.random = real_random
                            g2 = layout.interpret(tr, pm)
                        elif kind == 'A':
                            key, script = impl_key(arg, pm)
                            tr = layout.configure(g, model=pm)
                            pre = copy.deepcopy(tr.node)
                            if script:
                                pmodel.random = script
                            layout.rearrange(tr, key=key, attributes_first=af)
                            pmodel.random = real_random
                            why = _branch_spec_ok(pre, tr.node, set(RI.tree_vars(pre)), arg, af, rm)
                            if why:
                                ctx.fail(f'rearrange({arg}, attributes_first={af}): {why}', expected=pre, observed=tr.node,
                                         case={**case, 'model': name, 'history': hist + [list(map(str, op))]})
                                return
                            g2 = layout.interpret(tr, pm)
                        elif kind == 'RT':
                            # reconfigure towards a new top (canonical key): content kept, top = the requested one
                            tr = layout.reconfigure(g, top=(arg + ' ')[:-1], model=pm, key=pm.canonical_order)
                            g2 = layout.interpret(tr, pm)
                            top_expected = arg
                        else:
                            s = penman.encode(g, top=(arg + ' ')[:-1], model=pm)     # a new str object, as supplied by a caller
                            g2 = penman.decode(s, model=pm)
                            top_expected = arg
                    except Exception as e:      # noqa: BLE001
                        pmodel.random = real_random
                        ctx.fail(f'operation {kind}({arg}) raised {type(e).__name__}', observed=str(e)[:200],
                                 case={**case, 'model': name, 'history': hist + [list(map(str, op))]})
                        return
                    ctx.transitions += 1
                    ctx.validated += 1     # reference content / reference key order compared for this transition
                    if _snapshot(g) != before:
                        ctx.fail(f'operation {kind}({arg}) modified its argument graph', expected=repr(before)[:300], observed=repr(_snapshot(g))[:300],
                                 case={**case, 'model': name, 'history': hist + [list(map(str, op))]})
                        return
                    got = RI.content(g2.triples, g2.top, rm, deinvert=False)
                    wants = wants_of[hist[0]]
                    if g2.top != top_expected or got != wants[top_expected]:
                        ctx.fail(f'graph content or top changed by {kind}({arg}{"" if af is None else ", attributes_first=%s" % af}) under {name}',
                                 expected=[top_expected, wants[top_expected]['triples']], observed=[g2.top, got['triples']],
                                 case={**case, 'model': name, 'history': hist + [list(map(str, op))]})
                        return
                    sn = _snapshot(g2)
                    if sn not in seen:
                        seen.add(sn)
                        nxt.append((hist + [list(map(str, op))], g2))
            frontier = nxt
            depth += 1
    finally:
        pmodel.random = real_random
    ctx.cats['states'] += len(seen)
    ctx.max_depth = max(ctx.max_depth, depth)
    if len(base_triples) - len(variables) >= 2:
        ctx.nontrivial += 1
