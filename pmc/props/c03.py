"""C03 - any graph survives encode -> decode with its content intact, from any top.

Sub-checks:
  plain   GRAPH(V, E): connected well-formed graphs without markers, every
          permutation of the triple list, every variable as top, x models
  marked  graphs decoded from well-formed trees (faithful Push/POP markers),
          then every permutation (<= 5 triples) or every order within two
          adjacent transpositions, every variable as top
Oracle: encode does not raise; decode(text) has the requested top, the same
variables and the same content (pmc.ref.interp.content: triples after one
model deinversion, constants by written form, edge/attribute status).
"""

import copy
import itertools

from pmc.domains import graphs as G
from pmc.domains import models as M
from pmc.domains import trees as T
from pmc.ref import interp as RI

ID = 'C03'
TITLE = 'Any graph survives encode then decode with its content intact, from any top'
RULE = ('plain: every connected graph (one representative per variable renaming where concepts are uniform) x every permutation x '
        'every top; marked: every well-formed tree of the family, decoded, x orderings x tops; non-trivial = at least one edge or attribute')
ASSUMPTIONS = [
    'collision roles (X with X-of model-defined) are not in the role pools: no implementation can write them from the target side',
    'NaN and symbols that are not valid atoms are not in the constant pool; constants are compared by written form (str), "" and None both mean missing',
    'small-scope hypothesis: V <= 3 (4 in thorough), E <= 3 (4), and the stated role/constant pools',
]

T.ALPHABETS['c03chain'] = {'concepts': ['x'], 'roles': [':r', ':r-of'], 'atoms': [], 'refs': 'none'}
T.ALPHABETS['c03m'] = {'concepts': ['x'], 'roles': [':r', ':r-of', ':q~1'], 'atoms': ['k', '0'], 'refs': 'all'}


def shards(tier, seed):
    out = []
    q = tier == 'quick'
    specs = [('wide', 2, 2, ['DEFAULT', 'AMR'], 'all'), ('mid', 3, 3, ['DEFAULT'], 'all'), ('amr', 2, 2, ['AMR', 'MINI'], 'all'),
             ('narrow', 3, 4, ['DEFAULT'], 'adjacent2')]
    if not q:
        specs += [('narrow', 3, 4, ['DEFAULT'], 'all'), ('narrow', 4, 3, ['DEFAULT'], 'all'), ('amr', 3, 3, ['AMR'], 'all'),
                  ('mid', 3, 4, ['DEFAULT'], 'adjacent2')]
    for pool, V, E, models, mode in specs:
        b = f'GRAPH({V},{E}) {pool} pool, orderings={mode}, every top, models={",".join(models)}'
        idx = 0
        for n, concepts, extra in G.base_graphs(V, E, pool):
            out.append({'sub': 'plain', 'pool': pool, 'V': V, 'E': E, 'g': idx, 'models': models, 'mode': mode, 'bounds': b})
            idx += 1
    # group plain shards (one graph per shard is too fine): chunks of 8 graphs
    plain = [s for s in out if s['sub'] == 'plain']
    grouped = []
    key = None
    for s in plain:
        k = (s['pool'], s['V'], s['E'], s['mode'], tuple(s['models']))
        if grouped and key == k and len(grouped[-1]['gs']) < 8:
            grouped[-1]['gs'].append(s['g'])
        else:
            grouped.append({'sub': 'plain', 'pool': s['pool'], 'V': s['V'], 'E': s['E'], 'gs': [s['g']], 'models': s['models'], 'mode': s['mode'], 'bounds': s['bounds']})
            key = k
    out = grouped
    out += T.shard_list(4, 3, 4, 'c03chain', extra={'sub': 'marked', 'bounds': ''})
    if q:
        out += T.shard_list(3, 3, 3, 'c03m', extra={'sub': 'marked', 'bounds': 'decoded TREE(3,3,3) (c03m alphabet) x all permutations (<=5 triples) / adjacent2 x every top'})
    else:
        out += T.shard_list(3, 4, 3, 'c03m', pin=3, extra={'sub': 'marked', 'bounds': 'decoded TREE(3,4,3) (c03m alphabet) x all permutations (<=5 triples) / adjacent2 x every top'})
    return out


_graph_cache = {}


def _graphs(pool, V, E):
    k = (pool, V, E)
    if k not in _graph_cache:
        _graph_cache[k] = list(G.base_graphs(V, E, pool))
    return _graph_cache[k]


def cases(shard):
    if shard['sub'] == 'plain':
        gl = _graphs(shard['pool'], shard['V'], shard['E'])
        for gi in shard['gs']:
            n, concepts, extra = gl[gi]
            triples = G.instance_triples(n, concepts) + list(extra)
            for order in G.orderings(triples, shard['mode']):
                for top in G.VARS[:n]:
                    yield {'triples': order, 'top': top, 'models': shard['models']}
    else:
        for t in T.shard_trees(shard):
            yield {'t': t}


def _roundtrip(ctx, pm, rm, name, g, top, want, label, implicit=False):
    import penman
    try:
        pm.errors(g)        # a client may validate a graph before writing it (a pure call: must not matter)
        if implicit:        # no top requested and none stored: the top is the source of the first triple
            s = penman.encode(g, model=pm, indent=None)
        else:
            s = penman.encode(g, top=top, model=pm, indent=None)
    except Exception as e:      # noqa: BLE001
        ctx.fail(f'{label}: encode raised {type(e).__name__} under {name}', observed=str(e)[:200], expected='text')
        return False
    try:
        g2 = penman.decode(s, model=pm)
    except Exception as e:      # noqa: BLE001
        ctx.fail(f'{label}: encoded text does not decode ({type(e).__name__}) under {name}', observed=s)
        return False
    ctx.transitions += 1
    ctx.validated += 1     # `want` is the reference model's prediction of the decoded content
    if g2.top != top:
        ctx.fail(f'{label}: decoded top is not the requested top under {name}', expected=top, observed=[g2.top, s])
        return False
    got = RI.content(g2.triples, g2.top, rm, deinvert=False)
    if got != want:
        ctx.fail(f'{label}: graph content changed by encode/decode under {name}', expected=want['triples'], observed=[got['triples'], s])
        return False
    return True


def check(case, ctx):
    from penman.graph import Graph
    if 'triples' in case:
        triples = G.totriples(case['triples'])
        top = case['top']
        for name in case['models']:
            pm, rm = M.get(name)
            want = RI.content(triples, top, rm)
            if not _roundtrip(ctx, pm, rm, name, Graph(triples), top, want, 'plain'):
                return
            if triples and triples[0][0] == top and name == case['models'][0]:
                if not _roundtrip(ctx, pm, rm, name, Graph(triples), top, want, 'plain, implicit top', implicit=True):
                    return
        if len(triples) > sum(1 for t in triples if t[1] == ':instance'):
            ctx.nontrivial += 1
        ctx.outcome(repr(want['triples']))
    else:
        import penman
        from penman.tree import Tree
        t = T.totuple(case['t'])
        pm, rm = M.get('DEFAULT')
        if not RI.well_formed_tree(t, rm):
            ctx.cats['not_well_formed'] += 1
            return
        g0 = penman.interpret(Tree(t), model=pm)
        triples = list(g0.triples)
        variables = sorted(g0.variables())
        modes = 'all' if len(triples) <= 5 else 'adjacent2'
        for order in G.orderings(triples, modes):
            for top in variables:
                g = Graph(list(order), top=g0.top, epidata=g0.epidata)
                want = RI.content(triples, top, rm)
                ok = _roundtrip(ctx, pm, rm, 'DEFAULT', g, top, want, 'marked')
                if ok:
                    # the same graph after copy.deepcopy (as pickling, | and - produce): markers equal, not identical
                    ok = _roundtrip(ctx, pm, rm, 'DEFAULT', copy.deepcopy(g), top, want, 'marked+deepcopy')
                if not ok:
                    ctx.fails[-1]['case'] = {'t': case['t'], 'order': [list(x) for x in order], 'top': top}
                    return
        ctx.nontrivial += 1
