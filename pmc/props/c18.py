"""C18 - constant quoting, evaluation and typing are consistent with the notation.

Sub-checks:
  quote   every string over a 17-character alphabet up to length L (plus numbers and
          None): the quoted text is exactly one STRING token (real lexer and
          reference lexer), evaluates back to the original, is typed STRING
  atoms   every atom text over a 14-character alphabet up to length L': evaluate is
          total up to ConstantError, int/float exactly for JSON number syntax, None
          exactly for empty/None, never bool/NaN/container; type matches the value
"""

import itertools
import math

from pmc.ref import lexer as L

ID = 'C18'
TITLE = 'Constant quoting, evaluation and typing are consistent with the notation'

SIGMA_STR = ['"', '\\', 'a', ' ', '\n', '\t', '\x00', 'é', ' ', '(', ')', ':', '~', '/', ',', '^', '#', '\x0b', '\x1f', 'u', '\U0001F600', '\u0301']
SIGMA_NUM = ['0', '1', '9', '-', '+', '.', 'e', 'E', '"', 'a', 'N', 'I', 'n', 't', 'r', 'u', 'l', 'f', 's', 'x', ' ']
WORDS = ['NaN', 'Infinity', '-Infinity', 'true', 'false', 'null', 'nan', 'inf', '[]', '{}', '[1]', '{"a":1}', '1e999', '-0', '0.0', '1E5', '1e-5',
         '01', '1.', '.5', '+1', '0x10', '1_000', '\uff11', '\u0663', ' 1', '1 ', '1\n', '"a', 'a"', '"a"b"', '"\\u00e9"', '"\\x"', '"a\nb"', '""', '"', '1a', '2008-01-01', 'trueish', 'nullx', '1.2.3',
         '-', '--1', '1e', '1e+', 'Infinity1', '-NaN', '"\\"', '"\\\\"', '123456789012345678901234567890', '1.7976931348623157e309']

RULE = ('itertools.product over the alphabet up to the length bound plus a fixed word list; non-trivial = quote: string containing a character '
        'that needs escaping; atoms: text that is a JSON number, quoted, or one of the JSON literal names')
ASSUMPTIONS = [
    'strings longer than the bound and characters outside the 21-character alphabet are not explored (small scope)',
    'atom texts are the texts the Atom production can yield (one SYMBOL or STRING token by the reference lexer), the empty symbol and None; other strings (blanks, a lone quote) are outside "every atom text"',
    'JSON number syntax is decided by a hand-written recogniser of RFC 8259 number grammar (pmc/props/c18.py), not by the json module',
]


def shards(tier, seed):
    out = []
    lq = 4 if tier == 'quick' else 5
    la = 5 if tier == 'quick' else 6
    out.append({'sub': 'quote', 'prefix': '', 'lens': [0, 1], 'bounds': f'all strings of length <= {lq} over {len(SIGMA_STR)} chars; numbers; None'})
    for a in SIGMA_STR:
        out.append({'sub': 'quote', 'prefix': a, 'lens': list(range(1, lq)), 'bounds': f'all strings of length <= {lq} over {len(SIGMA_STR)} chars; numbers; None'})
    out.append({'sub': 'quote', 'long': True, 'bounds': f'all strings of length <= {lq} over {len(SIGMA_STR)} chars; numbers; None; deterministic long strings (every alphabet character repeated / cycled to lengths 50, 1000, 5000)'})
    out.append({'sub': 'quote', 'values': True, 'bounds': f'all strings of length <= {lq} over {len(SIGMA_STR)} chars; numbers; None'})
    num = SIGMA_NUM if tier == 'quick' else SIGMA_NUM[:15]
    for a in num:
        out.append({'sub': 'atoms', 'prefix': a, 'lens': list(range(0, la)), 'n': len(num), 'bounds': f'all atom texts of length <= {la} over {len(num)} chars + {len(WORDS)} words'})
    out.append({'sub': 'atoms', 'words': True, 'bounds': f'all atom texts of length <= {la} over {len(num)} chars + {len(WORDS)} words'})
    return out


def cases(shard):
    if shard['sub'] == 'quote':
        if shard.get('long'):
            for n in (50, 1000, 5000):
                for c in SIGMA_STR:
                    yield {'x': c * n}
                    yield {'x': ('a' + c) * (n // 2)}
                yield {'x': (''.join(SIGMA_STR) * (n // len(SIGMA_STR) + 1))[:n]}
            return
        if shard.get('values'):
            for v in (None, 0, -1, 1.5, 1e22, float('inf'), -0.0, 10 ** 30, True):
                yield {'v': repr(v)}
            return
        for n in shard['lens']:
            for t in itertools.product(SIGMA_STR, repeat=n):
                yield {'x': shard['prefix'] + ''.join(t)}
    else:
        if shard.get('words'):
            for w in WORDS + [None]:
                yield {'a': w}
            return
        num = SIGMA_NUM[:shard['n']]
        for n in shard['lens']:
            for t in itertools.product(num, repeat=n):
                yield {'a': shard['prefix'] + ''.join(t)}


def is_json_number(s):
    """RFC 8259: -? (0 | [1-9][0-9]*) (. [0-9]+)? ([eE] [+-]? [0-9]+)?   (ASCII digits only)"""
    i, n = 0, len(s)
    if i < n and s[i] == '-':
        i += 1
    if i >= n:
        return None
    if s[i] == '0':
        i += 1
    elif s[i] in '123456789':
        while i < n and s[i] in '0123456789':
            i += 1
    else:
        return None
    kind = 'int'
    if i < n and s[i] == '.':
        j = i + 1
        while j < n and s[j] in '0123456789':
            j += 1
        if j == i + 1:
            return None
        i = j
        kind = 'float'
    if i < n and s[i] in 'eE':
        j = i + 1
        if j < n and s[j] in '+-':
            j += 1
        k = j
        while k < n and s[k] in '0123456789':
            k += 1
        if k == j:
            return None
        i = k
        kind = 'float'
    return kind if i == n else None


def check(case, ctx):
    from penman import constant
    from penman import _lexer
    from penman.exceptions import ConstantError
    if 'x' in case or 'v' in case:
        if 'v' in case:
            v = eval(case['v'], {'inf': float('inf')})      # noqa: S307 - fixed literals from cases()
            q = constant.quote(v)
            ctx.transitions += 1
            if v is None:
                if q != '""':
                    ctx.fail('quote(None) is not the empty string constant', expected='""', observed=q)
                return
            if q != constant.quote(str(v)):
                ctx.fail('quote(number) is not the quoting of its string form', expected=constant.quote(str(v)), observed=q)
            return
        x = case['x']
        q = constant.quote(x)
        ctx.transitions += 1
        toks = list(_lexer.lex(q))
        if len(toks) != 1 or toks[0].type != 'STRING' or toks[0].text != q:
            ctx.fail('quoted text is not exactly one STRING token for the lexer', expected=['STRING', q], observed=[tuple(t[:2]) for t in toks])
            return
        rt = L.lex(q)
        ctx.validated += 1
        if len(rt) != 1 or rt[0][0] != 'STRING' or rt[0][1] != q:
            ctx.fail('quoted text is not exactly one string token under the documented lexical grammar', expected=['STRING', q], observed=[t[:2] for t in rt])
            return
        # also inside a graph, next to other tokens
        toks2 = [t.type for t in _lexer.lex('(a :r ' + q + ')')]
        if toks2 != ['LPAREN', 'SYMBOL', 'ROLE', 'STRING', 'RPAREN']:
            ctx.fail('quoted text is not one STRING token inside a graph', observed=toks2)
            return
        try:
            back = constant.evaluate(q)
            typ = constant.type(q)
        except Exception as e:      # noqa: BLE001
            ctx.fail(f'evaluate/type of a quoted string raised {type(e).__name__}', observed=str(e)[:200])
            return
        ctx.transitions += 2
        if back != x or not isinstance(back, str):
            ctx.fail('evaluate(quote(x)) != x', expected=x, observed=back)
            return
        if typ != constant.STRING:
            ctx.fail('type(quote(x)) is not STRING', observed=str(typ))
            return
        if any(c in x for c in '"\\\n\t\x00 \x0b\x1f'):
            ctx.nontrivial += 1
        ctx.outcome(q[:8])
        return
    a = case['a']
    if a:
        # "atom text" = what the Atom production can yield: exactly one SYMBOL or STRING token
        rt = L.lex(a)
        if len(rt) != 1 or rt[0][0] not in ('SYMBOL', 'STRING') or rt[0][1] != a or len(L.split_lines(a)) != 1:
            ctx.cats['not_an_atom_text'] += 1
            return
    try:
        v = constant.evaluate(a)
        outcome = 'value'
    except ConstantError:
        outcome = 'ConstantError'
        v = None
    except Exception as e:      # noqa: BLE001
        ctx.fail(f'evaluate raised {type(e).__name__}, not the documented constant error', observed=str(e)[:200])
        return
    ctx.transitions += 1
    ctx.validated += 1
    kind = None if a is None else is_json_number(a)
    if outcome == 'value':
        if isinstance(v, bool) or isinstance(v, (list, dict, tuple)) or (isinstance(v, float) and math.isnan(v)):
            ctx.fail('evaluate returned a bool / NaN / container', observed=repr(v))
            return
        if v is not None and not isinstance(v, (str, int, float)):
            ctx.fail('evaluate returned an unexpected type', observed=repr(v))
            return
        if (v is None) != (a is None or a == ''):
            ctx.fail('evaluate returns None exactly for the empty symbol / None', expected=(a is None or a == ''), observed=repr(v))
            return
        if isinstance(v, (int, float)):
            if kind is None:
                ctx.fail('evaluate returned a number for text that is not JSON number syntax', expected='str', observed=repr(v))
                return
            if (kind == 'int') != isinstance(v, int):
                ctx.fail('int/float kind differs from the JSON number syntax', expected=kind, observed=repr(v))
                return
        elif kind is not None:
            ctx.fail('evaluate did not return a number for JSON number syntax', expected=kind, observed=repr(v))
            return
    elif kind is not None or a in (None, ''):
        ctx.fail('evaluate raised ConstantError for a number / empty constant', observed=a)
        return
    # type()
    try:
        typ = constant.type(a)
        tout = 'value'
    except ConstantError:
        tout = 'ConstantError'
    except Exception as e:      # noqa: BLE001
        ctx.fail(f'type() raised {type(e).__name__}, not the documented constant error', observed=str(e)[:200])
        return
    ctx.transitions += 1
    if tout != outcome:
        ctx.fail('type() and evaluate() disagree on validity', expected=outcome, observed=tout)
        return
    if outcome == 'value':
        if v is None:
            want = constant.NULL
        elif isinstance(v, int):
            want = constant.INTEGER
        elif isinstance(v, float):
            want = constant.FLOAT
        elif a.startswith('"') and a.endswith('"') and len(a) >= 2:
            want = constant.STRING
        else:
            want = constant.SYMBOL
        if typ != want:
            ctx.fail('type() does not match the Python type of the evaluated value', expected=str(want), observed=str(typ))
            return
    ctx.cats[outcome if outcome != 'value' else type(v).__name__] += 1
    if kind is not None or (a and (a.startswith('"') or a in ('true', 'false', 'null', 'NaN', 'Infinity'))):
        ctx.nontrivial += 1
