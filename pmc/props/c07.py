"""C07 - the parser accepts exactly the documented language and fails cleanly.

Sub-checks (DESIGN.md section 4 C07):
  strings  every string over a 16-character alphabet up to length L, through
           parse, iterparse (str and list of lines) and parse_triples
  tokens   every token sequence up to length M over an 11-token alphabet rendered
           with single blanks, with dead-prefix pruning (a prefix the reference
           rejects before its end is extended by at most 2 further tokens)
  ttokens  the same for the triple-conjunction notation
  deep     deterministic nesting family, depths 1,2,3,50,199,200
  unicode  representative non-ASCII characters substituted/inserted at every
           position of template graphs
Oracle: outcome is a result or DecodeError (nothing else, no hang); acceptance,
tree(s) / triple list and, on rejection with at least one token, (lineno,
offset) equal pmc.ref.grammar on the pmc.ref.lexer token list.
"""

import itertools

from pmc.ref import grammar as G
from pmc.ref import lexer as L

ID = 'C07'
TITLE = 'The parser accepts exactly the documented language and fails cleanly'

SIGMA = ['(', ')', '/', ':', '~', '"', '\\', '#', ',', '^', '.', '-', ' ', '\n', 'a', '1']
TOK = ['(', ')', '/', ':r', ':', 'a', '"s"', '~1', '#c\n', '"', '~']
TTOK = ['r', '(', ')', 'a', 'a,', ',b', 'a,b', ',', '^', '^r', '"s"', ':', '#c\n']

RULE = ('strings: itertools.product over the alphabet under a per-shard prefix; token sequences: depth-first '
        'construction, one token per step, pruned two tokens after the reference rejects a prefix; a case is '
        'non-trivial when the reference accepts it or rejects it after at least two tokens')
ASSUMPTIONS = [
    'one graph is COMMENT* Node; parse() ignores what follows the first graph; iterparse() stops silently at the first token that is neither a comment nor "("; a trailing comment without a graph is end-of-input inside a graph',
    'metadata segmentation is compared only for comments without ":::" and without duplicate keys (undocumented there)',
    'nesting depth is explored to 200 with a deterministic family, not beyond (the project pins 200 as supported)',
    'with zero tokens the reported position is not asserted (nothing to point at)',
]


def shards(tier, seed):
    out = []
    full = 5 if tier == 'quick' else 6
    b = f'all strings of length <= {full} over 16 chars'
    out.append({'sub': 'strings', 'prefix': '', 'lens': [0, 1, 2], 'bounds': b})
    for a in SIGMA:
        for c in SIGMA:
            out.append({'sub': 'strings', 'prefix': a + c, 'lens': list(range(1, full - 1)), 'bounds': b})
    k = len(SIGMA) ** 2
    nblk = 6 if tier == 'quick' else 24
    for i in range(nblk):
        j = (seed * nblk + i) % k
        out.append({'sub': 'strings_block', 'prefix': SIGMA[j // 16] + SIGMA[j % 16], 'lens': [full - 1],
                    'bounds': f'length {full + 1}: {nblk} of 256 two-character prefix blocks chosen by VERIF_SEED, each exhaustive'})
    m = 8 if tier == "quick" else 9
    bt = f'token sequences of length <= {m} over {len(TOK)} tokens, dead prefixes + 2'
    out.append({'sub': 'tokens', 'short': 2, 'bounds': bt})
    for f in itertools.product(TOK, repeat=3):
        out.append({'sub': 'tokens', 'first': list(f), 'max': m, 'bounds': bt})
    tm = 8 if tier == 'quick' else 9
    btt = f'triple-notation token sequences of length <= {tm} over {len(TTOK)} tokens, dead prefixes + 2'
    out.append({'sub': 'ttokens', 'short': 2, 'bounds': btt})
    for f in itertools.product(TTOK, repeat=3):
        out.append({'sub': 'ttokens', 'first': list(f), 'max': tm, 'bounds': btt})
    for d in (1, 2, 3, 50, 199, 200):
        out.append({'sub': 'deep', 'depth': d, 'bounds': 'depths 1,2,3,50,199,200 x every <=2-token decoration of the innermost node x truncation classes'})
    out.append({'sub': 'long', 'bounds': 'long-token family: unterminated quote / escapes / symbols / comments / alignments of length 40, 400, 4000'})
    gm = 5 if tier == 'quick' else 6
    out.append({'sub': 'gmacro', 'max': gm, 'bounds': f'sequences of <= {gm} macro tokens (whole nodes, relations, comments) over {len(GMACRO)} macro tokens'})
    for f in TMACRO:
        out.append({'sub': 'tmacro', 'first': f, 'max': gm + 1, 'bounds': f'sequences of <= {gm + 1} macro tokens (whole triples, conjunction signs) over {len(TMACRO)} macro tokens'})
    hl = 4 if tier == 'quick' else 5
    for k, tpl in enumerate(HOLE_TEMPLATES):
        for a in HOLE:
            out.append({'sub': 'holes', 'tpl': k, 'first': a, 'max': hl,
                        'bounds': f'{len(HOLE_TEMPLATES)} templates with one hole filled by every string of length <= {hl} over {len(HOLE)} characters (the token micro-grammars in context)'})
    out.append({'sub': 'unicode', 'bounds': '7 code points substituted and inserted at every position of 4 templates'})
    return out


# ---------------------------------------------------------------- enumeration

def _tok_dfs(first, maxlen, alphabet, triple):
    """Yield token lists; prune two tokens after the reference finds a prefix dead."""
    def status(seq):
        toks = L.lex(' '.join(seq), triple)
        if triple:
            r = G.parse_triples(toks)
        else:
            r = G.parse_one(toks)
        if r[0] == 'err' and not r[3]:
            return 'dead'
        return 'live'

    def rec(seq, dead_extra):
        yield seq
        if len(seq) >= maxlen:
            return
        for t in alphabet:
            nxt = seq + [t]
            if dead_extra is None:
                st = status(nxt)
                if st == 'dead':
                    yield from rec(nxt, 0)
                else:
                    yield from rec(nxt, None)
            elif dead_extra < 2:
                yield from rec(nxt, dead_extra + 1)

    # classify the given prefix: how many tokens lie beyond the first dead point
    dead_extra = None
    for k in range(1, len(first) + 1):
        if status(first[:k]) == 'dead':
            dead_extra = len(first) - k
            break
    if dead_extra is not None and dead_extra > 2:
        return      # not in the space (pruned)
    yield from rec(first, dead_extra)


DECOR = ['', '/', '/ b', '/ "s"', '/ b~1', ':r', ':r c', ':r "s"', ':r~1 c~2', ': c', ':r ()', '/ b :r', '~1', '"', 'b', ') (', '/ /', ':r :q']
TRUNC = ['full', 'missing1', 'extra1', 'eof_after_slash', 'eof_after_role', 'eof_after_var', 'eof_after_lparen']


def _deep_cases(d):
    for dec in DECOR:
        for tr in TRUNC:
            opens = ''.join(f'(v{i} :r ' for i in range(d - 1))
            inner = '(x' + (' ' + dec if dec else '')
            closes = ')' * d
            if tr == 'full':
                s = opens + inner + closes
            elif tr == 'missing1':
                s = opens + inner + closes[:-1]
            elif tr == 'extra1':
                s = opens + inner + closes + ')'
            elif tr == 'eof_after_slash':
                s = opens + '(x /'
            elif tr == 'eof_after_role':
                s = opens + '(x :r'
            elif tr == 'eof_after_var':
                s = opens + '(x'
            else:
                s = opens + '('
            yield {'s': s}


GMACRO = ['(a / b', '(a', ')', ':r (c / d)', ':r-of c', ':r', '# ::k v\n', '(b / c)', ':q "s"~1', '/ e']
TMACRO = ['r(a,b)', '^r(a, b)', '^', '^^r(a ,b)', 'r(a , "s")', 'r(a)', '^ r(a b)', '#c\n', 'x']


def _long_cases():
    for n in (40, 400, 4000):
        x = 'x' * n
        yield {'s': '(a :op1 "' + x + ' :op2 b)'}                    # unterminated quote, long tail
        yield {'s': '(a :op1 "' + x + '" :op2 b)'}
        yield {'s': '(a :op1 "' + '\\\\' * n + '" :op2 b)'}          # many escapes
        yield {'s': '(a :op1 "' + '\\"' * n + ' :op2 b)'}             # escaped quotes, unterminated
        yield {'s': '(a :op1 "' + '\\x' * n + ')'}
        yield {'s': '(' + x + ' / ' + x + ' :' + x + ' ' + x + ')'}
        yield {'s': '# ' + '::k v ' * n + '\n(a / b)'}
        yield {'s': '# ' + ':' * n + '\n(a / b)'}
        yield {'s': '(a / b~' + '1,' * n + '1)'}
        yield {'s': '(a / b~e.' + '1' * n + ',)'}
        yield {'s': '(a / b ' + ':r c ' * n + ')'}
        yield {'s': ' ' * n + '(a / b)' + '\n' * n + ' '}
        yield {'s': 'r(a, "' + x + ')'}
        yield {'s': ' ^ '.join(['r(a, b)'] * n)}
        yield {'s': 'r(' + x + ',' + x + ')'}


UNI = ['\u00e9', '\u3042', '\u00a0', '\u3000', '\U0001F600', '\u2028', '\u0085']
TEMPLATES = ['(a / b :r c :q "s" :p~1 (d / e~e.2))', '# ::id 1 ::snt x y\n(a / b)', '(a :r-of b~1,2)', 'r(a, b) ^ q(a, "s")']


def _unicode_cases():
    for t in TEMPLATES:
        for u in UNI:
            for i in range(len(t) + 1):
                yield {'s': t[:i] + u + t[i:]}
                if i < len(t):
                    yield {'s': t[:i] + u + t[i + 1:]}


HOLE = ['~', '^', '_', '[', '\\', 'e', 'Z', '.', '1', ',', ':', '-', '`', ']']
HOLE_TEMPLATES = ['(a / b{})', '(a :r{} b)', '(a :r "s"{})', '(a :r b{} :q c)', 'r(a{}, b)', 'r(a, b{})']


def cases(shard):
    sub = shard['sub']
    if sub == 'holes':
        tpl = HOLE_TEMPLATES[shard['tpl']]
        for n in range(0, shard['max']):
            for t in itertools.product(HOLE, repeat=n):
                yield {'s': tpl.format(shard['first'] + ''.join(t))}
        return
    if sub in ('strings', 'strings_block'):
        prefix = shard['prefix']
        for n in shard['lens']:
            for t in itertools.product(SIGMA, repeat=n):
                yield {'s': prefix + ''.join(t)}
    elif sub in ('tokens', 'ttokens'):
        alphabet, triple = (TOK, False) if sub == 'tokens' else (TTOK, True)
        if 'short' in shard:
            for n in range(1, shard['short'] + 1):
                for seq in itertools.product(alphabet, repeat=n):
                    yield {'s': ' '.join(seq)}
        else:
            for seq in _tok_dfs(list(shard['first']), shard['max'], alphabet, triple):
                yield {'s': ' '.join(seq)}
    elif sub == 'deep':
        yield from _deep_cases(shard['depth'])
    elif sub == 'unicode':
        yield from _unicode_cases()
    elif sub == 'long':
        yield from _long_cases()
    elif sub == 'gmacro':
        for n in range(1, shard['max'] + 1):
            for seq in itertools.product(GMACRO, repeat=n):
                yield {'s': ' '.join(seq)}
    elif sub == 'tmacro':
        for n in range(0, shard['max']):
            for seq in itertools.product(TMACRO, repeat=n):
                yield {'s': ' '.join((shard['first'],) + seq)}


# ---------------------------------------------------------------- oracle

def _impl_parse(s):
    import penman
    try:
        t = penman.parse(s)
    except penman.DecodeError as e:
        return ('err', e.lineno, e.offset)
    except Exception as e:       # noqa: BLE001 - any other exception is the violation
        return ('exc', type(e).__name__ + ': ' + str(e)[:100])
    return ('ok', t.node, dict(t.metadata))


def _impl_iterparse(x):
    import penman
    out = []
    try:
        for t in penman.iterparse(x):
            out.append((t.node, dict(t.metadata)))
    except penman.DecodeError as e:
        return out, ('err', e.lineno, e.offset)
    except Exception as e:       # noqa: BLE001
        return out, ('exc', type(e).__name__ + ': ' + str(e)[:100])
    return out, None


def _impl_triples(s):
    import penman
    try:
        ts = penman.parse_triples(s)
    except penman.DecodeError as e:
        return ('err', e.lineno, e.offset)
    except Exception as e:       # noqa: BLE001
        return ('exc', type(e).__name__ + ': ' + str(e)[:100])
    return ('ok', ts)


def _cmp_one(ctx, what, got, want, ntoks):
    """got: impl outcome, want: reference outcome of parse_one."""
    if got[0] == 'exc':
        ctx.fail(f'{what}: raised something other than DecodeError', expected=want[0], observed=got[1])
        return False
    if got[0] != want[0]:
        ctx.fail(f'{what}: acceptance differs from the documented grammar', expected=list(want[:3]), observed=list(got[:3]))
        return False
    if got[0] == 'ok':
        if got[1] != want[1]:
            ctx.fail(f'{what}: tree differs from the reference parse', expected=want[1], observed=got[1])
            return False
        if G.metadata_is_specified(want[4]) and got[2] != want[2]:
            ctx.fail(f'{what}: metadata differs from the reference', expected=want[2], observed=got[2])
            return False
    elif ntoks >= 1 and (got[1], got[2]) != (want[1], want[2]):
        ctx.fail(f'{what}: reported (lineno, offset) is not the first failing token / end of input', expected=[want[1], want[2]], observed=[got[1], got[2]])
        return False
    return True


def check(case, ctx):
    s = case['s']
    sub = ctx.sub
    do_graph = sub not in ('ttokens', 'tmacro') and not (sub == 'holes' and s.startswith('r('))
    do_triples = sub in ('strings', 'strings_block', 'ttokens', 'unicode', 'tmacro', 'long') or (sub == 'holes' and s.startswith('r('))
    if do_graph:
        toks = L.lex(s)
        want = G.parse_one(toks)
        got = _impl_parse(s)
        ctx.transitions += 1
        ctx.validated += 1
        if not _cmp_one(ctx, 'parse', got, want, len(toks)):
            return
        ctx.cats['parse_' + want[0]] += 1
        if want[0] == 'ok' or len(toks) >= 2:
            ctx.nontrivial += 1
        ctx.outcome((want[0], want[1] if want[0] == 'err' else repr(want[1])))
        # iterparse, two containers
        wmany, werr = G.parse_many(toks)
        for what, x in (('iterparse(str)', s), ('iterparse(lines)', L.split_lines(s))):
            gmany, gerr = _impl_iterparse(x)
            ctx.transitions += 1
            ctx.validated += 1
            if gerr is not None and gerr[0] == 'exc':
                ctx.fail(f'{what}: raised something other than DecodeError', observed=gerr[1])
                return
            if len(gmany) != len(wmany):
                ctx.fail(f'{what}: number of graphs delivered differs', expected=len(wmany), observed=len(gmany))
                return
            for (gn, gm), w in zip(gmany, wmany):
                if gn != w[1]:
                    ctx.fail(f'{what}: tree differs from the reference parse', expected=w[1], observed=gn)
                    return
                if G.metadata_is_specified(w[4]) and gm != w[2]:
                    ctx.fail(f'{what}: metadata differs from the reference', expected=w[2], observed=gm)
                    return
            if (gerr is None) != (werr is None):
                ctx.fail(f'{what}: error/no error differs from the documented grammar', expected=werr and list(werr[:3]), observed=gerr and list(gerr))
                return
            if gerr is not None and (gerr[1], gerr[2]) != (werr[1], werr[2]):
                ctx.fail(f'{what}: reported (lineno, offset) is not the first failing token / end of input', expected=[werr[1], werr[2]], observed=[gerr[1], gerr[2]])
                return
        ctx.cats['iterparse_graphs_%d' % min(len(wmany), 3)] += 1
    if do_triples:
        ttoks = L.lex(s, triple=True)
        want = G.parse_triples(ttoks)
        got = _impl_triples(s)
        ctx.transitions += 1
        ctx.validated += 1
        if got[0] == 'exc':
            ctx.fail('parse_triples: raised something other than DecodeError', expected=want[0], observed=got[1])
            return
        if got[0] != want[0]:
            ctx.fail('parse_triples: acceptance differs from the documented notation', expected=list(want[:3]), observed=list(got[:3]))
            return
        if got[0] == 'ok':
            if [tuple(t) for t in got[1]] != want[1]:
                ctx.fail('parse_triples: triples differ from the reference', expected=want[1], observed=got[1])
                return
        elif len(ttoks) >= 1 and (got[1], got[2]) != (want[1], want[2]):
            ctx.fail('parse_triples: reported (lineno, offset) is not the first failing token / end of input', expected=[want[1], want[2]], observed=[got[1], got[2]])
            return
        ctx.cats['triples_' + want[0]] += 1
        if not do_graph and (want[0] == 'ok' or len(ttoks) >= 2):
            ctx.nontrivial += 1
        if not do_graph:
            ctx.outcome((want[0], repr(want[1:])))
