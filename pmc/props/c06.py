"""C06 - layout markers shape the text but never its content; encoding is total.

Sub-checks:
  product   full per-triple marker product (Push(v) for every variable / none, 0..2
            POPs) over orderings and tops of small connected well-formed graphs
  edits     explicit-state search (BFS, de-duplicated on (order, marker lists)) from the
            faithfully marked decoding of every well-formed tree of a family; edits =
            drop a marker, add Push(v), add POP, swap two marker lists, transpose two
            adjacent triples; every state is encoded from every top
  totality  arbitrary (also ill-formed, disconnected) triple lists x every requested
            top: str or LayoutError, and LayoutError exactly when the top is not a
            variable or some variable is not weakly connected to it
"""

import copy
import itertools

from pmc.domains import graphs as G
from pmc.domains import models as M
from pmc.domains import trees as T
from pmc.ref import interp as RI
from pmc.props import c03 as C03

ID = 'C06'
TITLE = 'Layout markers shape the text but never its content; encoding is total'
RULE = ('product: complete product of marker assignments; edits: all states within k edits of a faithful marking (BFS with state hashing); '
        'totality: all triple lists up to the length bound; non-trivial = at least one marker present or list not connected')
ASSUMPTIONS = [
    'the marker alphabet is Push(v) for graph variables v and POP (0..2 per triple); alignment markers are not layout markers and are covered by C02/C11',
    'edit histories are bounded by the stated number of edits; states reached by commuting edits are merged (equal Python values, hence equal futures)',
    'for arbitrary triple lists, variables are the sources (plus an explicit top) and instance triples are not edges',
    'the empty triple list is excluded from the totality clause (there is no top to request)',
]

T.ALPHABETS['c06m'] = {'concepts': ['x'], 'roles': [':r', ':r-of'], 'atoms': ['k'], 'refs': 'all'}
T.ALPHABETS['c06amr'] = {'concepts': ['x'], 'roles': [':consist-of', ':consist-of-of', ':ARG0-of', ':mod'], 'atoms': [], 'refs': 'all'}
T.ALPHABETS['c06n'] = {'concepts': [T.ABSENT, 'x'], 'roles': [':r', ':r-of'], 'atoms': [], 'refs': 'all'}


def shards(tier, seed):
    out = []
    q = tier == 'quick'
    # (i) product
    idx = 0
    for n, concepts, extra in G.base_graphs(3, 2, 'mid'):
        out.append({'sub': 'product', 'g': idx, 'double': not q, 'bounds': 'GRAPH(3,2) mid pool: full marker product (Push(v)/none x 0..2 POPs per triple); ' + ('<=4 triples: all orders; 5 triples: orders within 1 adjacent transposition; 4-5 triples: Push on non-instance triples only, instance triples carry 0..1 POPs' if q else '<=4 triples: all orders; 5 triples: orders within 2 adjacent transpositions; two Push markers per triple on graphs of <= 3 triples') + '; every top'})
        idx += 1
    idx = 0
    for n, concepts, extra in G.base_graphs(2, 1, 'wide'):
        out.append({'sub': 'product', 'pool': 'wide', 'g': idx, 'double': False, 'bounds': 'GRAPH(2,1) wide pool (concepts spelled like variables, inverted roles, numeric constants): full marker product, all orders, every top'})
        idx += 1
    # (ii) edits
    if q:
        b = '<=2 edits from the decoding of TREE(3,2,3), <=1 edit from TREE(3,3,3) (c06m alphabet) and a VERIF_SEED-chosen eighth of TREE(4,4,3) (c06n alphabet); every top'
        out += T.shard_list(3, 2, 3, 'c06m', extra={'sub': 'edits', 'k': 2, 'names2': 1, 'bounds': b + '; TREE(3,2,3) also decoded from text with two-character variable names'})
        out += T.shard_list(3, 3, 3, 'c06m', extra={'sub': 'edits', 'k': 1, 'bounds': b})
        big = T.shard_list(4, 4, 3, 'c06n', extra={'sub': 'edits', 'k': 1, 'bounds': b})
        out += big[seed % 8::8]    # rotating eighth of the largest family (each shard exhaustive)
    else:
        b = '<=3 edits from the decoding of TREE(3,2,3), <=2 edits from TREE(3,3,3) (c06m alphabet), <=1 edit from TREE(4,4,3) (c06n alphabet); every top; every state also as deep copy'
        out += T.shard_list(3, 2, 3, 'c06m', extra={'sub': 'edits', 'k': 3, 'names2': 1, 'bounds': b})
        out += T.shard_list(3, 3, 3, 'c06m', extra={'sub': 'edits', 'k': 2, 'bounds': b})
        out += T.shard_list(4, 4, 3, 'c06n', pin=3, extra={'sub': 'edits', 'k': 1, 'bounds': b})
    out += T.shard_list(3, 2, 3, 'c06amr', extra={'sub': 'edits', 'k': 1 if q else 2, 'model': 'AMR', 'bounds': 'AMR model, roles ending in -of by definition: <=1/2 edits from the decoding of TREE(3,2,3)'})
    # (ii') surplus POPs: k extra POPs on each triple in turn, k = 1..5
    out += T.shard_list(3, 3, 3, 'c06m', extra={'sub': 'surplus', 'bounds': 'decoding of TREE(3,3,3) (c06m alphabet) with 1..5 surplus POPs added on each triple in turn, every top'})
    # (iii) totality
    L = 3 if q else 4
    alphabet = _tot_alphabet()
    for first in alphabet:
        out.append({'sub': 'totality', 'first': list(first), 'L': L, 'bounds': f'all triple lists of length <= {L} over 2 sources x 4 roles x 4 targets, tops a b z None'})
    return out


def _tot_alphabet():
    return [(s, r, t) for s in ('a', 'b') for r in (':instance', ':r', ':r-of', ':') for t in ('a', 'b', 'x', None)]


_gl = None
_glw = None


def cases(shard):
    global _gl
    sub = shard['sub']
    global _glw
    if sub == 'product':
        if shard.get('pool') == 'wide':
            if _glw is None:
                _glw = list(G.base_graphs(2, 1, 'wide'))
            n, concepts, extra = _glw[shard['g']]
        else:
            if _gl is None:
                _gl = list(G.base_graphs(3, 2, 'mid'))
            n, concepts, extra = _gl[shard['g']]
        triples = G.instance_triples(n, concepts) + list(extra)
        vs = G.VARS[:n]
        small = len(triples) <= 3
        allorders = len(triples) <= 4
        pushopts = [[]] + [[v] for v in vs]
        if shard['double'] and small:
            pushopts += [[v, w] for v in vs for w in vs if v != w]
        for order in G.orderings(triples, 'all' if allorders else ('adjacent2' if shard['double'] else 'adjacent1')):
            per = []
            for tr in order:
                if tr[1] == ':instance' and not small:
                    per.append([(p, k) for p in [[]] for k in (0, 1)])
                elif shard.get('pool') == 'wide':
                    per.append([(p, k) for p in pushopts for k in (0, 1)])
                else:
                    per.append([(p, k) for p in pushopts for k in (0, 1, 2)])
            for marks in itertools.product(*per):
                for top in vs:
                    yield {'triples': order, 'marks': marks, 'top': top}
    elif sub == 'edits':
        for t in T.shard_trees(shard):
            if 'model' in shard:
                yield {'t': t, 'k': shard['k'], 'model': shard['model']}
            else:
                yield {'t': t, 'k': shard['k']}
                if shard.get('names2'):
                    yield {'t': t, 'k': shard['k'], 'names2': 1}
    elif sub == 'surplus':
        for t in T.shard_trees(shard):
            yield {'t': t}
    else:
        alphabet = _tot_alphabet()
        first = tuple(shard['first'])
        for n in range(0, shard['L']):
            for rest in itertools.product(alphabet, repeat=n):
                for top in ('a', 'b', 'z', None):
                    yield {'triples': (first,) + rest, 'top': top}


def _mk_graph(triples, marks, top=None):
    from penman.graph import Graph
    from penman.layout import Push, POP
    epi = {}
    for tr, (pushes, pops) in zip(triples, marks):
        lst = [Push(v) for v in pushes] + [POP] * pops
        if tr in epi:
            epi[tr] = epi[tr] + lst
        else:
            epi[tr] = lst
    return Graph(list(triples), top=top, epidata=epi)


def check(case, ctx):
    sub = ctx.sub
    pm, rm = M.get('DEFAULT')
    if sub == 'product':
        triples = G.totriples(case['triples'])
        marks = [(list(p), k) for p, k in case['marks']]
        g = _mk_graph(triples, marks)
        want = RI.content(triples, case['top'], rm)
        if not C03._roundtrip(ctx, pm, rm, 'DEFAULT', g, case['top'], want, 'product'):
            return
        if any(p or k for p, k in marks):
            ctx.nontrivial += 1
    elif sub == 'edits':
        if case.get('model'):
            pm, rm = M.get(case['model'])
        _check_edits(case, ctx, pm, rm)
    elif sub == 'surplus':
        _check_surplus(case, ctx, pm, rm)
    else:
        _check_totality(case, ctx, pm, rm)


# ------------------------------------------------------------------ (ii) edits

def _state_of(g):
    from penman.layout import Push, Pop
    marks = []
    for tr in g.triples:
        ms = []
        for e in g.epidata.get(tr, []):
            if isinstance(e, Push):
                ms.append('P' + str(e.variable))
            elif isinstance(e, Pop):
                ms.append('O')
        marks.append(tuple(ms))
    return (tuple(g.triples), tuple(marks))


def _neighbours(state, variables):
    order, marks = state
    n = len(order)
    for i in range(n):
        ms = marks[i]
        for j in range(len(ms)):                         # drop one marker
            yield order, marks[:i] + (ms[:j] + ms[j + 1:],) + marks[i + 1:]
        for v in variables:                              # add Push(v)
            yield order, marks[:i] + (('P' + v,) + ms,) + marks[i + 1:]
        yield order, marks[:i] + (ms + ('O',),) + marks[i + 1:]      # add POP
    for i in range(n):
        for j in range(i + 1, n):                        # swap two marker lists
            if marks[i] != marks[j]:
                m = list(marks)
                m[i], m[j] = m[j], m[i]
                yield order, tuple(m)
    for i in range(n - 1):                               # transpose adjacent triples (markers travel with their triple)
        o = list(order)
        m = list(marks)
        o[i], o[i + 1] = o[i + 1], o[i]
        m[i], m[i + 1] = m[i + 1], m[i]
        yield tuple(o), tuple(m)


def _graph_of_state(state):
    from penman.graph import Graph
    from penman.layout import Push, POP
    order, marks = state
    epi = {}
    for tr, ms in zip(order, marks):
        epi[tr] = [Push(m[1:]) if m[0] == 'P' else POP for m in ms]
    return Graph(list(order), epidata=epi)


def _check_edits(case, ctx, pm, rm):
    import penman
    from penman.tree import Tree
    t = T.totuple(case['t'])
    if not RI.well_formed_tree(t, rm):
        ctx.cats['not_well_formed'] += 1
        return
    g0 = penman.interpret(Tree(t), model=pm)
    if case.get('names2'):
        # decoded from text with two-character variable names: every mention is a distinct str object
        from pmc.props.c10 import ref_apply
        g0 = penman.decode(penman.format(Tree(ref_apply(t, {'a': 'a1', 'b': 'b2', 'c': 'c3', 'd': 'd4'}))), model=pm)
    triples = list(g0.triples)
    variables = sorted(v for v in g0.variables() if v is not None)
    init = _state_of(g0)
    seen = {init}
    frontier = [init]
    depth = 0
    wants = {top: RI.content(triples, top, rm) for top in variables}
    while True:
        for st in frontier:
            g = _graph_of_state(st)
            gc = copy.deepcopy(g)       # markers equal to, not identical with, the POP singleton (pickle, |, -)
            for top in variables:
                if not (C03._roundtrip(ctx, pm, rm, rm.name, g, top, wants[top], f'edits(depth {depth})') and
                        C03._roundtrip(ctx, pm, rm, rm.name, gc, top, wants[top], f'edits(depth {depth}, deep copy)')):
                    ctx.fails[-1]['case'] = {'t': case['t'], 'k': case['k'], 'model': case.get('model'), 'names2': case.get('names2'), 'state': [list(map(list, st[0])), list(map(list, st[1]))], 'top': top}
                    return
        if depth >= case['k']:
            break
        nxt = []
        for st in frontier:
            for nb in _neighbours(st, variables):
                if nb not in seen:
                    seen.add(nb)
                    nxt.append(nb)
        frontier = nxt
        depth += 1
    ctx.cats['states'] += len(seen)
    ctx.max_depth = max(ctx.max_depth, depth)
    ctx.nontrivial += 1


def _check_surplus(case, ctx, pm, rm):
    import penman
    from penman.tree import Tree
    t = T.totuple(case['t'])
    if not RI.well_formed_tree(t, rm):
        ctx.cats['not_well_formed'] += 1
        return
    g0 = penman.interpret(Tree(t), model=pm)
    triples = list(g0.triples)
    variables = sorted(v for v in g0.variables() if v is not None)
    order, marks = _state_of(g0)
    wants = {top: RI.content(triples, top, rm) for top in variables}
    for i in range(len(order)):
        for k in range(1, 6):
            st = (order, marks[:i] + (marks[i] + ('O',) * k,) + marks[i + 1:])
            g = _graph_of_state(st)
            for top in variables:
                if not C03._roundtrip(ctx, pm, rm, 'DEFAULT', g, top, wants[top], f'surplus({k} POPs on triple {i})'):
                    return
    ctx.nontrivial += 1


# ------------------------------------------------------------------ (iii) totality

def _check_totality(case, ctx, pm, rm):
    import penman
    from penman.exceptions import LayoutError
    from penman.graph import Graph
    triples = G.totriples(case['triples'])
    top = case['top']
    g = Graph(triples)
    sources = {s for s, _, _ in triples}
    eff_top = top if top is not None else triples[0][0]
    should_fail = eff_top not in sources
    if not should_fail:
        reach = RI.weakly_connected(triples, eff_top)
        should_fail = reach != sources
    try:
        s = penman.encode(g, top=top, model=pm, indent=None)
        outcome = 'ok'
    except LayoutError:
        outcome = 'layout_error'
        s = None
    except Exception as e:      # noqa: BLE001
        ctx.fail(f'encode raised {type(e).__name__}, not the layout error', observed=str(e)[:200], expected='str or LayoutError')
        return
    ctx.transitions += 1
    ctx.validated += 1
    if outcome == 'ok' and not isinstance(s, str):
        ctx.fail('encode returned a non-string', observed=repr(s))
        return
    if should_fail and outcome == 'ok':
        ctx.fail('encode succeeded although a variable is not connected to the top / the top is not a variable', expected='LayoutError', observed=s)
        return
    if not should_fail and outcome != 'ok':
        ctx.fail('encode raised LayoutError on a connected triple list with a valid top', expected='text', observed='LayoutError')
        return
    ctx.cats[outcome] += 1
    if should_fail:
        ctx.nontrivial += 1
