"""C11 - edge reification and dereification are mutually inverse.

Sub-checks:
  inverse     decoding of every well-formed tree of a family over reifiable AMR/MINI/custom
              roles (attributes, inverted edges, re-entrancies, aligned roles/targets,
              pre-existing variables '_' and '_2'), and its marker-less twin:
              reify_edges laws, then dereify_edges restores triples, top, alignments and
              (for decoded graphs) the identical encoded text
  nocollapse  trees that already contain reified-looking nodes: dereify_edges never
              collapses a node that has another relation, is the top, or is referenced elsewhere
Preconditions are decided by the reference: table unambiguous for the roles used; no
collapsible node in the input.
"""

from pmc.domains import models as M
from pmc.domains import trees as T
from pmc.ref import interp as RI

ID = 'C11'
TITLE = 'Edge reification and dereification are mutually inverse'
RULE = ('every decoration of every tree shape within bounds, filtered by well-formedness and the two preconditions of the statement (decided '
        'by the reference); 3 variable-name variants; non-trivial = at least one reifiable relation')
ASSUMPTIONS = [
    'roles whose reification concept is shared with another role under swapped argument roles (:subset/:superset under AMR) make the table ambiguous and are outside the statement',
    'identical encoded text is asserted for decoded graphs (which carry a layout); for marker-less twins triples, top and alignments are asserted',
    'small-scope hypothesis: <= 3 nodes, <= 3 relations',
]

T.ALPHABETS['c11amr'] = {'concepts': ['x'], 'roles': [':mod', ':mod-of', ':polarity~e.1', ':ARG0', ':poss-of'], 'atoms': ['-', 'k~e.1'], 'refs': 'all+aligned0'}
T.ALPHABETS['c11mini'] = {'concepts': ['x'], 'roles': [':mod', ':accompanier-of~1', ':ARG0'], 'atoms': ['-'], 'refs': 'all'}
T.ALPHABETS['c11t'] = {'concepts': ['x', 'ra'], 'roles': [':a', ':a-of~1', ':b'], 'atoms': ['k'], 'refs': 'all'}
T.ALPHABETS['c11deep'] = {'concepts': ['x', 'have-mod-91'], 'roles': [':mod', ':ARG0', ':ARG0-of'], 'atoms': ['-'], 'refs': 'all'}
T.ALPHABETS['c11nc2'] = {'concepts': ['x', 'have-mod-91'], 'roles': [':ARG1-of', ':ARG2', ':ARG1'], 'atoms': ['-', '7'], 'refs': 'all'}
T.ALPHABETS['c11nc'] = {'concepts': ['x', 'have-mod-91'], 'roles': [':ARG1', ':ARG2', ':ARG1-of', ':ARG2-of', ':ARG0'], 'atoms': ['-'], 'refs': 'all'}

VARIANTS = [None, {'b': '_', 'c': '_2'}, {'a': '_2', 'b': '_'}]


def shards(tier, seed):
    out = []
    q = tier == 'quick'
    n, b = (3, 3) if q else (3, 4)
    out += T.shard_list(n, b, 3, 'c11amr', pin=3, extra={'sub': 'inverse', 'model': 'AMR', 'bounds': f'TREE({n},{b},3) AMR roles / MINI roles / custom table x 3 variable-name variants x (decoded, marker-less)' + ('; TREE(3,4,3) over a 3-role alphabet (relations that close two nested nodes); plus a VERIF_SEED-chosen eighth of TREE(3,4,3) AMR' if q else '')})
    out += T.shard_list(n, b, 3, 'c11mini', extra={'sub': 'inverse', 'model': 'MINI', 'bounds': ''})
    out += T.shard_list(n, b, 3, 'c11t', extra={'sub': 'inverse', 'model': 'TREIF1', 'bounds': ''})
    out += T.shard_list(3, 4, 3, 'c11deep', pin=3, extra={'sub': 'inverse', 'model': 'AMR', 'bounds': ''})
    if q:
        blk = T.shard_list(3, 4, 3, 'c11amr', pin=3, extra={'sub': 'inverse', 'model': 'AMR', 'bounds': ''})
        out += blk[seed % 8::8]     # rotating eighth of the next bound (each shard exhaustive)
    out += T.shard_list(2, 3, 2, 'c11nc', extra={'sub': 'nocollapse', 'model': 'AMR', 'bounds': ''})
    out += T.shard_list(2, 4, 2, 'c11nc2', extra={'sub': 'nocollapse', 'model': 'AMR', 'bounds': ''})
    out += T.shard_list(3, 3 if q else 4, 3, 'c11nc', pin=3, extra={'sub': 'nocollapse', 'model': 'AMR', 'bounds': f'TREE(3,{3 if q else 4},3) with have-mod-91 nodes: protected nodes are never collapsed'})
    return out


def cases(shard):
    for t in T.shard_trees(shard):
        yield {'t': t, 'model': shard['model']}


# ------------------------------------------------------------------ reference

def ref_reification(rm, role):
    for r, concept, src, tgt in rm.reifications:
        if r == role:
            return concept, src, tgt
    return None


def ref_ambiguous(rm, role):
    """reify then dereify by the table does not come back to `role`"""
    e = ref_reification(rm, role)
    if e is None:
        return False
    concept, src, tgt = e
    for r, c, s, t in rm.reifications:
        if c == concept:
            if (s, t) == (src, tgt) or (s, t) == (tgt, src):
                return r != role
    return False


def ref_collapsible(triples, top, rm):
    """variables of nodes that a dereification could collapse (by the statement's own criteria)"""
    variables = {s for s, _, _ in triples}
    concepts = {c for _, c, _, _ in rm.reifications}
    out = set()
    for v in variables:
        if v == top:
            continue
        inst = [t for t in triples if t[0] == v and t[1] == ':instance']
        rels = [t for t in triples if t[0] == v and t[1] != ':instance']
        if len(inst) != 1 or inst[0][2] not in concepts or len(rels) != 2:
            continue
        if any(t[2] == v and t[1] != ':instance' for t in triples):
            continue    # referenced elsewhere
        roles = {rels[0][1], rels[1][1]}
        for r, c, s, t in rm.reifications:
            if c == inst[0][2] and roles == {s, t} and len(roles) == 2:
                src = next(x[2] for x in rels if x[1] == s)
                if src in variables:        # a relation needs a node as its source
                    out.add(v)
    return out


def _rename(t, ren):
    from pmc.props.c10 import ref_apply
    return ref_apply(t, ren)


def check(case, ctx):
    t0 = T.totuple(case['t'])
    variants = VARIANTS if ctx.sub == 'inverse' else [None, {'a': 'a2', 'b': '_'}]
    for ren in variants:
        t = t0 if ren is None else _rename(t0, ren)
        if ren is not None and t == t0:
            continue
        n = len(ctx.fails)
        if ctx.sub == 'inverse':
            _check_inverse(t, case['model'], ctx)
        else:
            _check_nocollapse(t, case['model'], ctx)
        if len(ctx.fails) > n:
            ctx.fails[-1]['case'] = {'t': t, 'model': case['model']}
            return


def _aln(g):
    from penman import surface
    return ({k: str(v) for k, v in surface.alignments(g).items()}, {k: str(v) for k, v in surface.role_alignments(g).items()})


def _check_inverse(t, name, ctx):
    import penman
    from penman import layout, transform
    from penman.graph import Graph
    from penman.tree import Tree
    pm, rm = M.get(name)
    if not RI.well_formed_tree(t, rm):
        ctx.cats['not_well_formed'] += 1
        return
    g0 = layout.interpret(Tree(t, metadata={'id': '1'}), pm)
    triples = list(g0.triples)
    reifiable = [tr for tr in triples if ref_reification(rm, tr[1]) is not None]
    if any(ref_ambiguous(rm, tr[1]) for tr in reifiable):
        ctx.cats['ambiguous_table_for_role'] += 1
        return
    if ref_collapsible(triples, g0.top, rm):
        ctx.cats['input_has_collapsible_node'] += 1
        return
    if len(set(triples)) != len(triples):
        return
    text0 = penman.encode(g0, model=pm)
    variants3 = [('decoded', g0), ('markerless', Graph(triples, top=g0.top, metadata={'id': '1'}))]
    others = sorted(v for v in g0.variables() if v != g0.top)
    if others and not ref_collapsible(triples, others[-1], rm):
        variants3.append(('retopped', Graph(triples, top=others[-1], epidata=g0.epidata)))
    for label, g in variants3:
        old_vars = set(g.variables())
        try:
            r = transform.reify_edges(g, pm)
        except Exception as e:      # noqa: BLE001
            ctx.fail(f'reify_edges raised {type(e).__name__} on a {label} graph under {name}', observed=str(e)[:200])
            return
        ctx.transitions += 1
        ctx.validated += 1
        left = [tr for tr in r.triples if ref_reification(rm, tr[1]) is not None]
        if left:
            ctx.fail(f'reify_edges left a reifiable role ({label}, {name})', observed=left)
            return
        if r.top != g.top:
            ctx.fail(f'reify_edges changed the top ({label}, {name})', expected=g.top, observed=r.top)
            return
        new_vars = set(r.variables()) - old_vars
        if len(new_vars) != len(reifiable):
            ctx.fail(f'reify_edges: number of new variables is not the number of reifiable triples ({label}, {name})', expected=len(reifiable), observed=sorted(new_vars))
            return
        # every reifiable triple replaced, in place, by the table's three triples; others kept in order
        rt = list(r.triples)
        i = 0
        for tr in triples:
            e = ref_reification(rm, tr[1])
            if e is None:
                if i >= len(rt) or rt[i] != tr:
                    ctx.fail(f'reify_edges did not keep the other triples in order ({label}, {name})', expected=triples, observed=rt)
                    return
                i += 1
            else:
                three = rt[i:i + 3]
                i += 3
                vs = {x[0] for x in three}
                if len(three) != 3 or len(vs) != 1 or not (vs <= new_vars):
                    ctx.fail(f'reify_edges: a reifiable triple is not replaced by three triples of one fresh node ({label}, {name})', expected=tr, observed=three)
                    return
                v = next(iter(vs))
                concept, src, tgt = e
                if set(three) != {(v, src, tr[0]), (v, ':instance', concept), (v, tgt, tr[2])}:
                    ctx.fail(f'reify_edges: replacement is not the table\'s reification ({label}, {name})', expected=[(v, src, tr[0]), (v, ':instance', concept), (v, tgt, tr[2])], observed=three)
                    return
        if i != len(rt):
            ctx.fail(f'reify_edges added extra triples ({label}, {name})', observed=rt)
            return
        try:
            d = transform.dereify_edges(r, pm)
        except Exception as e:      # noqa: BLE001
            ctx.fail(f'dereify_edges raised {type(e).__name__} on the reified {label} graph under {name}', observed=str(e)[:200])
            return
        ctx.transitions += 1
        if list(d.triples) != triples or d.top != g.top:
            ctx.fail(f'dereify_edges(reify_edges(g)) does not restore the triples/top ({label}, {name})', expected=[g.top, triples], observed=[d.top, list(d.triples)])
            return
        if _aln(d) != _aln(g):
            ctx.fail(f'dereify_edges(reify_edges(g)) does not restore the alignments ({label}, {name})', expected=repr(_aln(g)), observed=repr(_aln(d)))
            return
        if label == 'decoded':
            try:
                text1 = penman.encode(d, model=pm)
            except Exception as e:      # noqa: BLE001
                ctx.fail(f'restored graph does not encode ({type(e).__name__}) under {name}', observed=str(e)[:200])
                return
            if text1 != text0:
                ctx.fail(f'dereify_edges(reify_edges(g)) does not restore the identical encoded text under {name}', expected=text0, observed=text1)
                return
    if reifiable:
        ctx.nontrivial += 1
    ctx.outcome(len(reifiable))


def _check_nocollapse(t, name, ctx):
    from penman import layout, transform
    from penman.tree import Tree
    pm, rm = M.get(name)
    if not RI.well_formed_tree(t, rm):
        ctx.cats['not_well_formed'] += 1
        return
    g = layout.interpret(Tree(t), pm)
    triples = list(g.triples)
    may = ref_collapsible(triples, g.top, rm)
    variables = {s for s, _, _ in triples}
    protected = variables - may
    try:
        d = transform.dereify_edges(g, pm)
    except Exception as e:      # noqa: BLE001
        ctx.fail(f'dereify_edges raised {type(e).__name__} under {name}', observed=str(e)[:200])
        return
    ctx.transitions += 1
    ctx.validated += 1
    still = {s for s, r, _ in d.triples if r == ':instance'}
    gone = protected - still
    if gone:
        ctx.fail('dereify_edges collapsed a node that has another relation, is the top, or is referenced elsewhere', expected=sorted(protected), observed=[sorted(gone), list(d.triples)])
        return
    if d.top != g.top:
        ctx.fail('dereify_edges changed the top', expected=g.top, observed=d.top)
        return
    if may:
        ctx.nontrivial += 1
        ctx.cats['had_collapsible_node'] += 1
