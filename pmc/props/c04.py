"""C04 - decoding yields exactly the documented reading of the notation.

Space: unfiltered trees (duplicate definitions, duplicate triples, over-inverted
roles, empty nodes, missing targets/concepts, alignments everywhere, '~' inside
strings) x models {DEFAULT, AMR, NOOP, MINI}.
Oracle: pmc.ref.interp (written from docs/notation.rst, docs/structures.rst):
top, variables, ordered triples, role/target alignment maps.
"""

from pmc.domains import models as M
from pmc.domains import trees as T
from pmc.ref import interp as RI

ID = 'C04'
TITLE = 'Decoding yields exactly the documented reading of the notation'

T.ALPHABETS['c04roles'] = {
    'concepts': [T.ABSENT, 'x', 'a'],
    'roles': [':ARG0', ':ARG0-of', ':consist-of', ':consist-of-of', ':mod-of', ':ARG0-of-of', ':r-of-of-of', ':domain-of~1'],
    'atoms': ['k', '"a"'],
    'refs': 'all+aligned0',
}
T.ALPHABETS['c04roles5'] = dict(T.ALPHABETS['c04roles'], roles=[':ARG0-of', ':consist-of', ':consist-of-of', ':mod-of', ':r-of-of-of'], concepts=[T.ABSENT, 'x'])
T.ALPHABETS['c04wide'] = dict(T.ALPHABETS['wide'], roles=T.ALPHABETS['wide']['roles'] + [':r-of-of', ':q-of-k'])

T.ALPHABETS['c04text'] = {
    'concepts': [T.ABSENT, 'x', '"s\u2028t"', 'x\u0085y~1'],
    'roles': [':r', ':r-of', ':r\u0085b', ':r\u2028-of~1', ':\x1c', ':consist-of'],
    'atoms': ['k', '"s\u2028t"~2', 'k\x0cb', '"\x0b~3"', None],
    'refs': 'all+aligned0',
}

MODELS = ['DEFAULT', 'AMR', 'NOOP', 'MINI']

RULE = ('every decoration of every tree shape within (N nodes, B branches, depth D) over the named alphabet, times 4 models; '
        'non-trivial: the tree has at least one branch besides concepts')
ASSUMPTIONS = [
    'for a triple that occurs more than once in one graph the docs do not say which occurrence keeps its alignment: not asserted',
    'the literal role ":instance" is not in the alphabets (docs do not say whether it is a concept or an edge)',
    'variables are compared as the set of triple sources plus the top (Graph.variables definition)',
    'alignment markers are compared by their text form (~prefix + indices)',
]


def shards(tier, seed):
    out = []
    if tier == 'quick':
        out += T.shard_list(3, 2, 3, 'c04wide', dupvars=True, empty_nodes=True, extra={'sub': 'wide', 'bounds': 'TREE(3,2,3) wide alphabet, duplicate definitions, empty nodes'})
        out += T.shard_list(3, 3, 3, 'mid', dupvars=True, extra={'sub': 'mid', 'bounds': 'TREE(3,3,3) mid alphabet, duplicate definitions'})
        out += T.shard_list(3, 3, 3, 'c04roles', extra={'sub': 'modelroles', 'bounds': 'TREE(3,3,3) model-specific roles'})
        out += T.shard_list(4, 4, 3, 'narrow', extra={'sub': 'narrow', 'bounds': 'TREE(4,4,3) narrow alphabet'})
        out += T.shard_list(2, 2, 2, 'c04text', extra={'sub': 'text', 'bounds': 'TREE(2,2,2) with non-ASCII separators / VT / FF / FS inside symbols, roles and strings, decoded from text'})
    else:
        out += T.shard_list(3, 2, 3, 'c04wide', dupvars=True, empty_nodes=True, extra={'sub': 'wide', 'bounds': 'TREE(3,2,3) wide alphabet, duplicate definitions, empty nodes'})
        out += T.shard_list(3, 4, 3, 'mid', dupvars=True, pin=3, extra={'sub': 'mid', 'bounds': 'TREE(3,4,3) mid alphabet, duplicate definitions'})
        out += T.shard_list(3, 4, 3, 'c04roles5', pin=3, extra={'sub': 'modelroles', 'bounds': 'TREE(3,4,3) model-specific roles (5 of the 8), TREE(3,3,3) all 8'})
        out += T.shard_list(3, 3, 3, 'c04roles', extra={'sub': 'modelroles', 'bounds': ''})
        out += T.shard_list(4, 5, 4, 'narrow', pin=3, extra={'sub': 'narrow', 'bounds': 'TREE(4,5,4) narrow alphabet'})
        out += T.shard_list(3, 3, 3, 'c04text', extra={'sub': 'text', 'bounds': 'TREE(3,3,3) with non-ASCII separators / VT / FF / FS inside symbols, roles and strings, decoded from text'})
    out += T.shard_list(2, 2, 2, 'c04roles', extra={'sub': 'entry', 'bounds': 'TREE(2,2,2) model-specific roles x 8 public decoding entry points (decode, codec, loads, iterdecode x2, load from a stream / an open file / a file name)'})
    return out


def _entry_points(text, pm, files):
    import io
    import os
    import tempfile
    import penman
    from penman.codec import PENMANCodec
    yield 'decode', [penman.decode(text, model=pm)]
    yield 'PENMANCodec(model).decode', [PENMANCodec(model=pm).decode(text)]
    yield 'loads', penman.loads(text, model=pm)
    yield 'iterdecode(str)', list(penman.iterdecode(text, model=pm))
    yield 'iterdecode(lines)', list(penman.iterdecode(text.split('\n'), model=pm))
    yield 'load(stream)', penman.load(io.StringIO(text), model=pm)
    if not files:
        return
    d = os.path.join(tempfile.gettempdir(), f'pmc_c04_{os.getppid()}')     # one directory per run, removed by teardown()
    os.makedirs(d, exist_ok=True)
    path = os.path.join(d, f'g{os.getpid()}.txt')
    with open(path, 'w', encoding='utf-8') as fh:
        fh.write(text)
    yield 'load(file name)', penman.load(path, model=pm)
    with open(path, encoding='utf-8') as fh:
        yield 'load(open file)', penman.load(fh, model=pm)


def teardown():
    import os
    import shutil
    import tempfile
    shutil.rmtree(os.path.join(tempfile.gettempdir(), f'pmc_c04_{os.getpid()}'), ignore_errors=True)


def cases(shard):
    for t in T.shard_trees(shard):
        yield {'t': t}


def check(case, ctx):
    from penman import layout, surface
    from penman.tree import Tree
    t = T.totuple(case['t'])
    nontrivial = any(role != '/' for role, _ in t[1])
    for name in MODELS:
        pm, rm = M.get(name)
        want = RI.interpret(t, rm)
        if ctx.sub == 'entry':
            import penman
            text = penman.format(Tree(t), indent=(None, -1)[len(t[1]) % 2])
            try:
                for what, gs in _entry_points(text, pm, name in ('AMR', 'MINI')):
                    ctx.transitions += 1
                    if len(gs) != 1 or list(gs[0].triples) != want['triples'] or gs[0].top != want['top']:
                        ctx.fail(f'{what}: triples differ from the documented reading under {name}', expected=want['triples'], observed=[list(x.triples) for x in gs])
                        return
            except Exception as e:      # noqa: BLE001
                ctx.fail(f'a decoding entry point raised {type(e).__name__} under {name}', observed=str(e)[:200], expected=want['triples'])
                return
            ctx.validated += 1
            continue
        try:
            if ctx.sub == 'text':
                # end to end: the text is decoded; the tree is only the generator of the text
                import penman
                text = penman.format(Tree(t), indent=(None, -1, 0)[len(t[1]) % 3])
                if '\x0b' in text or '\x0c' in text:
                    # VT/FF are blanks outside strings: the reading is that of the text, so re-derive the tree
                    from pmc.ref import grammar as RG, lexer as RL
                    r = RG.parse_one(RL.lex(text))
                    if r[0] != 'ok':
                        ctx.cats['text_not_in_language'] += 1
                        continue
                    want = RI.interpret(r[1], rm)
                g = penman.decode(text, model=pm)
                # the same text with no blank before a role (a ':' ends a symbol): same reading
                tight = text.replace(' :', ':')
                g_tight = penman.decode(tight, model=pm)
                if list(g_tight.triples) != list(g.triples) or g_tight.top != g.top:
                    ctx.fail(f'decoding depends on a blank before a role under {name}', expected=list(g.triples), observed=[tight, list(g_tight.triples)])
                    return
            else:
                g = layout.interpret(Tree(t), pm)
        except Exception as e:      # noqa: BLE001
            ctx.fail(f'interpret/decode raised {type(e).__name__} under {name}', observed=str(e)[:200], expected=want['triples'])
            return
        ctx.transitions += 1
        ctx.validated += 1
        if g.top != want['top']:
            ctx.fail(f'top differs from the documented reading under {name}', expected=want['top'], observed=g.top)
            return
        if list(g.triples) != want['triples']:
            ctx.fail(f'ordered triples differ from the documented reading under {name}', expected=want['triples'], observed=list(g.triples))
            return
        wv = {s for s, _, _ in want['triples']}
        if want['top'] is not None:
            wv.add(want['top'])
        if g.variables() != wv:
            ctx.fail(f'variables differ from the documented reading under {name}', expected=sorted(map(repr, wv)), observed=sorted(map(repr, g.variables())))
            return
        for what, fn, key in (('alignments', surface.alignments, 'tgt_aln'), ('role alignments', surface.role_alignments, 'role_aln')):
            got = {k: str(v) for k, v in fn(g).items() if k not in want['duplicates']}
            exp = {k: v for k, v in want[key].items() if k not in want['duplicates']}
            if got != exp:
                ctx.fail(f'{what} differ from the documented reading under {name}', expected=repr(exp), observed=repr(got))
                return
        if want['duplicates']:
            ctx.cats['has_duplicate_triples'] += 1
        if any(r['inverted'] for r in want['rows']):
            ctx.cats['deinverted_' + name] += 1
    ctx.outcome(repr(want['triples']))
    if nontrivial:
        ctx.nontrivial += 1
