"""C20 - the penman command equals the library pipeline and emits a normal form.

The tool is run in-process (penman.__main__.main with argv/stdin/stdout owned; a fixed
subset is replayed in a real sub-process and must agree).  The reference is the documented
pipeline of docs/command.rst composed from *public library calls*:
    iterparse -> canonicalize_roles -> interpret -> reify_edges -> dereify_edges ->
    reify_attributes -> indicate_branches -> (reconfigure | configure) -> rearrange ->
    reset_variables -> format / format_triples
Space: the complete set of normalisation option sets (2^5 flags x rearrange keys x
reconfigure keys x variable formats) x models x formatting options x input streams x
input channels.  random.random is owned (scripted, reset identically for both sides).
"""

import itertools
import json
import os
import shutil
import tempfile

from pmc.domains import models as M
from pmc.props.c05 import Script

ID = 'C20'
TITLE = 'The penman command equals the library pipeline and emits a normal form'
RULE = ('complete product of normalisation option sets x models x streams (formatting option rotating with the running index, and a complete '
        'formatting x flag-subset product on its own); non-trivial = at least one normalisation option switched on')
ASSUMPTIONS = [
    'the reference pipeline is the library itself (the property equates tool and library); the library is pinned by C01-C19',
    '--check is excluded here (covered by C16); --quiet and -v are not explored (--quiet is part of C16)',
    'graphs are separated by one or more newlines; the exact number of blank lines between graphs of different input files is not asserted',
    'random keys are scripted identically for the tool run and the reference run',
]

FLAGS = ['--canonicalize-roles', '--reify-edges', '--dereify-edges', '--reify-attributes', '--indicate-branches']
REARR = [None, 'canonical', 'alphanumeric', 'attributes-first,alphanumeric', 'inverted-last', 'inverted-last,alphanumeric', 'random']
RECONF = [None, 'original', 'canonical', 'random']
MKVARS = [None, '{prefix}{j}', 'v{i}']
FORMATS = [[], ['--indent', 'no'], ['--indent', '0'], ['--indent', '3'], ['--compact'], ['--compact', '--indent', '3'], ['--triples'], ['--triples', '--indent', 'no'], ['--indent=-1', '--compact'], ['--indent', '0', '--compact']]
MODELS = ['none', 'amr', 'noop', 'mini', 'minitop']

STREAMS = [
    '# ::id 1 ::snt x y\n(a / alpha :ARG0~e.1 (b / beta) :polarity - :mod (c / gamma~2 :ARG0-of a))\n',
    '(a / A :consist-of-of (b / B))\n\n# ::k\n(x / X :mod-of (y / Y) :op2 2 :op10 10 :op1 1 :quant 7)\n',
    '(s / sell-01 :ARG0 (i / i) :ARG1 (b / book :ARG1-of (r / read :ARG0 i)))\n',
    '(b / bark-01 :ARG0-of-of-of (d / dog) :domain-of 7 :mod-of-of-of-of-of (e / x) :ARG1-of-of-of-of-of-of (f / y))\n(a / x :ARG1-of (_ / have-mod-91 :ARG2 7) :accompanier (_2 / y))',
    '(a)\n\n\n# ::id 3\n(w / want-01 :polarity - :ARG0 (c / child) :ARG1 (g / go :ARG0 c) :time "a (b" )   (z / zed :wiki _)',
    '# ::snt x y\n(c / chapter :domain-of 7 :mod (d / x :poss-of c) :ARG2~e.3 "q"~e.4)',
]


def _optsets():
    out = []
    for r in REARR:
        for c in RECONF:
            for v in MKVARS:
                for n in range(len(FLAGS) + 1):
                    for fl in itertools.combinations(FLAGS, n):
                        out.append({'flags': list(fl), 'rearrange': r, 'reconfigure': c, 'mkvars': v})
    return out


def shards(tier, seed):
    out = []
    q = tier == 'quick'
    sets = _optsets()
    streams = list(range(len(STREAMS)))
    models = MODELS
    b = f'{len(sets)} normalisation option sets x 4 models x {len(streams)} streams x ' + ('one formatting option (rotating with the running index, offset VERIF_SEED)' if q else f'all {len(FORMATS)} formatting options')
    step = 12
    for m in models:
        for i in range(0, len(sets), step):
            out.append({'sub': 'options', 'model': m, 'lo': i, 'hi': min(i + step, len(sets)), 'streams': streams, 'allfmt': not q, 'rot': seed, 'bounds': b})
    for m in MODELS:
        for fi in range(len(FORMATS)):
            out.append({'sub': 'formats', 'model': m, 'format': fi, 'bounds': 'every formatting option x every subset of the 5 flags x 4 models x all streams'})
    out.append({'sub': 'channels', 'bounds': 'stdin / one file / two files / three files / two UTF-16 files with --encoding x 12 option sets x 2 models'})
    for part in range(6):
        out.append({'sub': 'subprocess', 'part': part, 'bounds': '36 fixed runs through a real python -m penman sub-process, compared with the in-process harness'})
    return out


def cases(shard):
    sub = shard['sub']
    if sub == 'options':
        sets = _optsets()
        k = shard['lo']
        for o in sets[shard['lo']:shard['hi']]:
            for s in shard['streams']:
                if shard.get('allfmt'):
                    for f in range(len(FORMATS)):
                        yield {'model': shard['model'], 'opts': o, 'format': f, 'stream': s, 'channel': 'stdin'}
                else:
                    yield {'model': shard['model'], 'opts': o, 'format': (k + s + shard.get('rot', 0)) % len(FORMATS), 'stream': s, 'channel': 'stdin'}
            k += 1
    elif sub == 'formats':
        for n in range(len(FLAGS) + 1):
            for fl in itertools.combinations(FLAGS, n):
                for s in range(len(STREAMS)):
                    yield {'model': shard['model'], 'opts': {'flags': list(fl), 'rearrange': None, 'reconfigure': None, 'mkvars': None},
                           'format': shard['format'], 'stream': s, 'channel': 'stdin'}
    elif sub == 'channels':
        sets = _optsets()
        for m in ('none', 'amr'):
            for o in sets[::len(sets) // 12][:12]:
                for ch in ('stdin', 'file1', 'file2', 'file3', 'file2u16'):
                    yield {'model': m, 'opts': o, 'format': 0, 'stream': 1, 'channel': ch}
                    yield {'model': m, 'opts': o, 'format': 1, 'stream': 4, 'channel': ch}
    else:
        sets = _optsets()
        k = 0
        for m in MODELS:
            for o in sets[5::len(sets) // 9][:9]:
                if k % 6 == shard['part']:
                    yield {'model': m, 'opts': o, 'format': k % len(FORMATS), 'stream': k % len(STREAMS), 'channel': 'file2' if k % 3 == 0 else 'stdin', 'subprocess': True}
                k += 1


# ------------------------------------------------------------------ reference pipeline (public library calls only)

REARRANGE_KEYS = {'random': 'random_order', 'canonical': 'canonical_order', 'alphanumeric': 'alphanumeric_order',
                  'inverted-last': 'is_role_inverted', 'attributes-first': None}
RECONFIGURE_KEYS = {'original': 'original_order', 'random': 'random_order', 'canonical': 'canonical_order'}


def _sort_key(spec, model, table):
    funcs = []
    kwargs = {}
    for name in spec.split(','):
        meth = table[name]
        if meth is None:
            kwargs['attributes_first'] = True
        else:
            funcs.append(getattr(model, meth))
    return (lambda role: [f(role) for f in funcs]), kwargs


def _indent_of(fmt):
    indent = -1
    for i, a in enumerate(fmt):
        if a == '--indent':
            v = fmt[i + 1]
            indent = None if v == 'no' else int(v)
        elif a.startswith('--indent='):
            indent = int(a.split('=', 1)[1])
    return indent


def reference(texts, opts, fmt, pm):
    """texts: list of input texts (one per input channel). Returns the list of per-graph output strings."""
    import penman
    from penman import layout, transform
    flags = set(opts['flags'])
    indent = _indent_of(fmt)
    compact = '--compact' in fmt
    out = []
    for text in texts:
        for t in penman.iterparse(text):
            if '--canonicalize-roles' in flags:
                t = transform.canonicalize_roles(t, pm)
            g = layout.interpret(t, pm)
            if '--reify-edges' in flags:
                g = transform.reify_edges(g, pm)
            if '--dereify-edges' in flags:
                g = transform.dereify_edges(g, pm)
            if '--reify-attributes' in flags:
                g = transform.reify_attributes(g)
            if '--indicate-branches' in flags:
                g = transform.indicate_branches(g, pm)
            if '--triples' in fmt:
                out.append(('triples', g.triples))
                continue
            if opts['reconfigure']:
                key, _ = _sort_key(opts['reconfigure'], pm, RECONFIGURE_KEYS)
                t2 = layout.reconfigure(g, model=pm, key=key)
            else:
                t2 = layout.configure(g, model=pm)
            if opts['rearrange']:
                key, kw = _sort_key(opts['rearrange'], pm, REARRANGE_KEYS)
                layout.rearrange(t2, key=key, **kw)
            if opts['mkvars']:
                t2.reset_variables(opts['mkvars'])
            out.append(('text', penman.format(t2, indent=indent, compact=compact)))
    return out


def _match_output(stdout, expected):
    """stdout must be the expected strings in order, separated by newlines only."""
    import penman
    pos = 0
    for kind, want in expected:
        while pos < len(stdout) and stdout[pos] == '\n':
            pos += 1
        if kind == 'text':
            if not stdout.startswith(want, pos):
                return f'graph text differs at offset {pos}', want, stdout[pos:pos + len(want) + 40]
            pos += len(want)
        else:
            ok = False
            for ind in (True, False):
                w = penman.format_triples(want, indent=ind)
                if stdout.startswith(w, pos) and (pos + len(w) == len(stdout) or stdout[pos + len(w)] == '\n'):
                    pos += len(w)
                    ok = True
                    break
            if not ok:
                return f'triple conjunction differs at offset {pos}', penman.format_triples(want), stdout[pos:pos + 200]
    if stdout[pos:].strip('\n'):
        return 'extra output after the last graph', '', stdout[pos:pos + 200]
    return None


def check(case, ctx):
    import penman
    import penman.model as pmodel
    from pmc.engine import cli
    name = {'none': 'DEFAULT', 'amr': 'AMR', 'noop': 'NOOP', 'mini': 'MINI', 'minitop': 'MINITOP'}[case['model']]
    pm, rm = M.get(name)
    opts = case['opts']
    fmt = FORMATS[case['format']]
    stream = STREAMS[case['stream']]
    d = tempfile.mkdtemp(prefix='pmc_c20_')
    real_random = pmodel.random
    try:
        argv = []
        if case['model'] == 'amr':
            argv.append('--amr')
        elif case['model'] == 'noop':
            argv.append('--noop')
        elif case['model'] in ('mini', 'minitop'):
            mp = os.path.join(d, 'mini.json')
            with open(mp, 'w') as fh:
                json.dump(M.MINI if case['model'] == 'mini' else M.spec('MINITOP'), fh)
            argv += ['--model', mp]
        argv += opts['flags']
        if opts['rearrange']:
            argv += ['--rearrange', opts['rearrange']]
        if opts['reconfigure']:
            argv += ['--reconfigure', opts['reconfigure']]
        if opts['mkvars']:
            argv += ['--make-variables', opts['mkvars']]
        argv += fmt
        ch = case['channel']
        stdin = ''
        if ch == 'stdin':
            texts = [stream]
            stdin = stream
        else:
            enc = 'utf-8'
            if ch.endswith('u16'):
                # input files in another encoding, announced with --encoding; a non-ASCII metadata line makes it matter
                enc, ch = 'utf-16', ch[:-3]
                argv += ['--encoding', 'utf-16']
                stream = '# ::note \u00e9 \u3042\n' + stream
            n = int(ch[4:])
            texts = [stream, STREAMS[0], ''][:n] if n < 3 else [stream, '', STREAMS[2]]
            for i, tx in enumerate(texts):
                p = os.path.join(d, f'in{i}.txt')
                with open(p, 'w', encoding=enc) as fh:
                    fh.write(tx)
                argv.append(p)
        uses_random = 'random' in (opts['rearrange'] or '') or 'random' in (opts['reconfigure'] or '')
        if case.get('subprocess'):
            if uses_random:
                return
            code, out, err = cli.run_subprocess(argv, stdin)
            code2, out2, err2 = cli.run_main(argv, stdin)
            ctx.transitions += 1
            if (code, out) != (code2, out2):
                ctx.fail('in-process harness and real sub-process disagree (harness conformance)', expected=[code, out], observed=[code2, out2])
                return
        else:
            if uses_random:
                pmodel.random = Script('random1')
            code, out, err = cli.run_main(argv, stdin)
            pmodel.random = real_random
        ctx.transitions += 1
        if code != 0 or 'Traceback' in err:
            ctx.fail('the tool failed on well-formed input', expected='exit 0', observed=[code, err[-300:]], repro='penman ' + ' '.join(argv))
            return
        if uses_random:
            pmodel.random = Script('random1')
        try:
            expected = reference(texts, opts, fmt, pm)
        finally:
            pmodel.random = real_random
        ctx.validated += 1
        n_in = sum(len(list(penman.iterparse(tx))) for tx in texts)
        if len(expected) != n_in:
            ctx.fail('harness: reference produced a different number of graphs', expected=n_in, observed=len(expected))
            return
        why = _match_output(out, expected)
        if why:
            ctx.fail(f'tool output is not the library pipeline output: {why[0]}', expected=why[1], observed=why[2], repro='penman ' + ' '.join(argv))
            return
        # formatting options never change content
        if '--triples' not in fmt:
            base_argv = [a for a in argv if a not in fmt or a in opts['flags']]
            gs = penman.loads(out, model=pm)
            if len(gs) != n_in:
                ctx.fail('one output graph per input graph', expected=n_in, observed=len(gs))
                return
        # idempotence (stated for well-formed input; with --canonicalize-roles the first pass makes it well-formed)
        from pmc.ref import interp as RI0
        wf0 = '--canonicalize-roles' in opts['flags'] or all(RI0.well_formed_tree(t.node, rm) for tx in texts for t in penman.iterparse(tx))
        if wf0 and not uses_random and not opts['reconfigure'] and '--indicate-branches' not in opts['flags'] and '--triples' not in fmt and ch == 'stdin':
            code2, out2, err2 = cli.run_main(argv, out)
            ctx.transitions += 1
            if code2 != 0 or out2 != out:
                ctx.fail('feeding the output back with the same options does not reproduce it byte for byte', expected=out, observed=out2, repro='penman ' + ' '.join(argv))
                return
        # no normalisation option: output decodes to the same graphs as the input
        from pmc.ref import interp as RI
        wf = all(RI.well_formed_tree(t.node, rm) for tx in texts for t in penman.iterparse(tx))
        if not wf:
            ctx.cats['stream_not_well_formed_under_model'] += 1
        if wf and not opts['flags'] and not opts['rearrange'] and not opts['reconfigure'] and not opts['mkvars'] and '--triples' not in fmt:
            gin = [g for tx in texts for g in penman.loads(tx, model=pm)]
            gout = penman.loads(out, model=pm)
            sig = lambda g: (sorted(map(repr, g.triples)), g.top, dict(g.metadata))      # noqa: E731
            if [sig(g) for g in gin] != [sig(g) for g in gout]:
                ctx.fail('with no normalisation option the output does not decode to the same graphs as the input', expected=[sig(g) for g in gin], observed=[sig(g) for g in gout])
                return
    finally:
        pmodel.random = real_random
        shutil.rmtree(d, ignore_errors=True)
    if opts['flags'] or opts['rearrange'] or opts['reconfigure'] or opts['mkvars']:
        ctx.nontrivial += 1
    ctx.outcome(hash(out))
