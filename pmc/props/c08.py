"""C08 - tokens tile the input and follow the documented lexical grammar.

Space: every string up to a length bound over the 23-character alphabet of
DESIGN.md 3.2, both lexing patterns, three containers (str, list of lines,
list of lines with LF terminators).
Oracle: (1) reference-free tiling invariant, (2) token-by-token agreement with
the character-loop scanner pmc.ref.lexer (written from docs/notation.rst).
"""

import itertools

from pmc.ref import lexer as ref

ID = 'C08'
TITLE = 'Tokens tile the input and follow the documented lexical grammar'

SIGMA = ['(', ')', '/', ':', '~', '"', '\\', '#', ',', '.', 'a', 'E', '1',
         ' ', '\t', '\n', '\r', '\v', '\f', '\u00a0', '\u3000', '\u2028', '\u0085']
SIGMA14 = ['(', ')', '/', ':', '~', '"', '\\', '#', ',', '.', 'e', '1', ' ', '\n']
SIGMA8 = ['~', '"', '\\', 'e', '.', '1', ',', ' ']

RULE = ('every string over the stated alphabet up to the stated length is enumerated once '
        '(itertools.product under a fixed prefix per shard); a case is non-trivial when the '
        'implementation produced at least two tokens or an UNEXPECTED token')
ASSUMPTIONS = [
    'small-scope: strings longer than the bound and characters outside the alphabet are not explored '
    '(U+00A0, U+3000, U+2028, U+0085 stand for "non-ASCII blank / separator")',
    'a raw VT or FF between double quotes: docs/notation.rst excludes them from StrChar, while the property '
    '(and C09) makes them ordinary characters within a line; the class of such a token is not asserted, the tiling invariant is',
    'list-of-lines containers are produced by splitting on LF/CRLF/CR; lines carrying a CRLF terminator are covered by C09',
]

BLANKS = ' \t\r\n\v\f'
OTHER = '(zz / yy :qq "ww"~9 :pp (vv / uu))\n(tt)'


def shards(tier, seed):
    out = []
    full = 5 if tier == 'quick' else 6
    # lengths 0..2 in one shard, then one shard per 2-char prefix for each longer length
    out.append({'sub': 'full', 'alpha': 'S23', 'prefix': '', 'lens': [0, 1, 2], 'bounds': ''})
    for i, a in enumerate(SIGMA):
        for j, b in enumerate(SIGMA):
            lens = list(range(1, full - 1))
            if tier == 'quick' and (i + j + seed) % 3 == 0:
                lens = lens[:-1]      # quick: two thirds of the length-5 prefix blocks, rotating with VERIF_SEED
            out.append({'sub': 'full', 'alpha': 'S23', 'prefix': a + b, 'lens': lens,
                        'bounds': f'all strings of length <= {full - 1 if tier == "quick" else full} over 23 chars' + ('; length 5: two thirds of the 529 prefix blocks, chosen by VERIF_SEED (each block exhaustive)' if tier == 'quick' else '')})
    if tier == 'quick':
        # rotating block of the length-6 space: 2 of the 529 two-character prefixes
        k = len(SIGMA) ** 2
        for i in range(2):
            j = (seed * 2 + i) % k
            a, b = SIGMA[j // len(SIGMA)], SIGMA[j % len(SIGMA)]
            out.append({'sub': 'block6', 'alpha': 'S23', 'prefix': a + b, 'lens': [4],
                        'bounds': 'length 6 over 23 chars: 2 of 529 prefix blocks chosen by VERIF_SEED (each block exhaustive)'})
        for i, a in enumerate(SIGMA8):
            for j, b in enumerate(SIGMA8):
                lens = [4, 5] if (i + j + seed) % 4 == 0 else [4]
                out.append({'sub': 'len7_8', 'alpha': 'S8', 'prefix': a + b, 'lens': lens, 'bounds': 'all strings of length 6 and a VERIF_SEED-chosen quarter of length 7 over 8 chars (alignment/string/escape characters)'})
    else:
        for a in SIGMA14:
            for b in SIGMA14:
                out.append({'sub': 'len6_14', 'alpha': 'S14', 'prefix': a + b, 'lens': [4], 'bounds': 'all strings of length 6 over 14 chars (already inside the full space; kept as a cross-check of sharding)'})
        for a in SIGMA8:
            for b in SIGMA8:
                out.append({'sub': 'len8_8', 'alpha': 'S8', 'prefix': a + b, 'lens': [5, 6], 'bounds': 'all strings of length 7-8 over 8 chars (alignment/string/escape characters)'})
    # largest shards first (better packing on the worker pool); results are merged by shard index anyway
    out.sort(key=lambda s: -max(s['lens']) * 100 - len(_ALPHA[s['alpha']]))
    return out


_ALPHA = {'S23': SIGMA, 'S14': SIGMA14, 'S8': SIGMA8}


def cases(shard):
    alpha = _ALPHA[shard['alpha']]
    prefix = shard['prefix']
    for n in shard['lens']:
        if prefix == '':
            for t in itertools.product(alpha, repeat=n):
                yield {'s': ''.join(t)}
        else:
            for t in itertools.product(alpha, repeat=n):
                yield {'s': prefix + ''.join(t)}


def _impl(text_or_lines, triple):
    from penman import _lexer
    pat = _lexer.TRIPLE_RE if triple else _lexer.PENMAN_RE
    return list(_lexer.lex(text_or_lines, pattern=pat))


def check(case, ctx):
    s = case['s']
    lines = ref.split_lines(s)
    nontrivial = False
    for triple in (False, True):
        toks = _impl(s, triple)
        ctx.transitions += 1
        # ---- (1) tiling invariant, reference-free
        covered = [bytearray(len(ln)) for ln in lines]
        prev = (0, -1)
        for t in toks:
            typ, text, lineno, offset, line = t
            if not (1 <= lineno <= len(lines)):
                ctx.fail('tiling: line number out of range', expected=f'1..{len(lines)}', observed=repr(t))
                return
            ln = lines[lineno - 1]
            if not text or ln[offset:offset + len(text)] != text:
                ctx.fail('tiling: token text is not the text at its line/offset', expected=ln[offset:offset + len(text)], observed=repr(t))
                return
            if (lineno, offset) <= prev:
                ctx.fail('tiling: tokens out of order or overlapping', expected=f'after {prev}', observed=repr(t))
                return
            prev = (lineno, offset + len(text) - 1)
            cov = covered[lineno - 1]
            for k in range(offset, offset + len(text)):
                cov[k] = 1
            if typ not in ('STRING', 'COMMENT') and any(c in BLANKS for c in text):
                ctx.fail('tiling: ASCII blank inside a token that is neither string nor comment', observed=repr(t))
                return
        for ln, cov in zip(lines, covered):
            for c, f in zip(ln, cov):
                if not f and c not in BLANKS:
                    ctx.fail('tiling: a non-blank character is covered by no token (skipped / treated as separator)',
                             expected=f'{c!r} in a token', observed=[tuple(t[:4]) for t in toks])
                    return
        # ---- (2) classes: reference scanner
        want = ref.lex(s, triple)
        got = [tuple(t[:4]) for t in toks]
        wantc = [w[:4] for w in want]
        ctx.validated += 1
        if got != wantc:
            skip = any(w[0] == 'STRING' and ('\v' in w[1] or '\f' in w[1]) for w in want) or \
                any(g[0] == 'STRING' and ('\v' in g[1] or '\f' in g[1]) for g in got)
            if skip:
                ctx.cats['class_not_asserted_vt_ff_in_quotes'] += 1
            else:
                ctx.fail('classes: token sequence differs from the documented lexical grammar' + (' (triple pattern)' if triple else ''),
                         expected=wantc, observed=got)
                return
        # ---- (3) containers: list of lines, with and without LF terminator
        for variant, lns in (() if triple else (('lines', lines), ('lines+LF', [ln + '\n' for ln in lines]))):
            toks2 = _impl(lns, triple)
            ctx.transitions += 1
            got2 = [tuple(t[:4]) for t in toks2]
            if got2 != got:
                ctx.fail(f'containers: tokens for {variant} differ from tokens for the string', expected=got, observed=got2)
                return
        # ---- (4) two lexers alive at once (lazy token streams must not share scratch state)
        if not triple and len(toks) >= 2 and len(s) <= 5:
            from penman import _lexer
            ita = iter(_lexer.lex(s))
            itb = iter(_lexer.lex(OTHER))
            got3 = []
            for k in range(len(toks)):
                got3.append(tuple(next(ita)[:4]))
                next(itb, None)
            ctx.transitions += 1
            if got3 != got:
                ctx.fail('concurrency: tokens change when a second lexer is consumed alternately', expected=got, observed=got3)
                return
        if len(toks) >= 2 or any(t[0] == 'UNEXPECTED' for t in toks):
            nontrivial = True
        if not triple:
            ctx.cats['tokens_%d' % min(len(toks), 6)] += 1
            ctx.outcome(tuple(t[0] for t in toks))
            for t in toks:
                ctx.cats['class_' + t[0]] += 1
    if nontrivial:
        ctx.nontrivial += 1
