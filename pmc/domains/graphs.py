"""Graph family GRAPH(V, E) of DESIGN.md 3.4 and marker spaces.

A graph case is {'triples': [[s, r, t], ...], 'top': v}; triples are lists so
the case is JSON-able; constants may be str, int, float or None.
"""

import itertools

VARS = ['a', 'b', 'c', 'd']
CONCEPT = {'a': 'A', 'b': 'B', 'c': 'C', 'd': 'D'}

POOLS = {
    # edge roles, attribute roles, constants, concept options per variable
    'wide': {'eroles': [':r', ':q', ':r-of'], 'aroles': [':p', ':p-of'], 'consts': ['x', '"s t"', '"q\\"r"', 0, 0.0, -1, 1.5, '', None],
             'concepts': ['X', 'VAR', '"s"', None]},
    'mid': {'eroles': [':r', ':r-of'], 'aroles': [':p'], 'consts': ['x', 0], 'concepts': ['X']},
    'narrow': {'eroles': [':r'], 'aroles': [':p'], 'consts': ['x'], 'concepts': ['X']},
    'amr': {'eroles': [':ARG0', ':ARG0-of', ':consist-of', ':mod'], 'aroles': [':quant', ':polarity-of'], 'consts': ['-', 0],
            'concepts': ['X', 'VAR']},
}


def pool(nvars, p):
    vs = VARS[:nvars]
    out = []
    for s in vs:
        for r in p['eroles']:
            for t in vs:
                out.append((s, r, t))
    for s in vs:
        for r in p['aroles']:
            for c in p['consts']:
                out.append((s, r, c))
    return out


def connected(nvars, extra):
    vs = VARS[:nvars]
    adj = {v: set() for v in vs}
    for s, r, t in extra:
        if isinstance(t, str) and t in adj:
            adj[s].add(t)
            adj[t].add(s)
    seen = {vs[0]}
    todo = [vs[0]]
    while todo:
        v = todo.pop()
        for w in adj[v]:
            if w not in seen:
                seen.add(w)
                todo.append(w)
    return len(seen) == nvars


def _canonical_under_renaming(nvars, extra):
    """Keep one representative per variable-renaming class (cheap symmetry reduction):
    the lexicographically smallest image under all permutations of the variables."""
    vs = VARS[:nvars]
    key0 = sorted(map(repr, extra))
    for perm in itertools.permutations(vs):
        if list(perm) == vs:
            continue
        m = dict(zip(vs, perm))
        img = sorted(repr((m[s], r, m.get(t, t) if isinstance(t, str) else t)) for s, r, t in extra)
        if img < key0:
            return False
    return True


def base_graphs(V, E, pool_name, symmetry=True, exact_e=None):
    """Yield (nvars, concepts, extra triples) - connected, triples distinct."""
    p = POOLS[pool_name]
    for n in range(1, V + 1):
        pl = pool(n, p)
        for e in range(0, E + 1):
            if exact_e is not None and e != exact_e:
                continue
            for extra in itertools.combinations(pl, e):
                if not connected(n, extra):
                    continue
                if symmetry and len(p['concepts']) == 1 and not _canonical_under_renaming(n, extra):
                    continue
                for concepts in itertools.product(p['concepts'], repeat=n):
                    yield n, concepts, extra


def instance_triples(n, concepts):
    out = []
    for v, c in zip(VARS[:n], concepts):
        if c == 'X':
            c = CONCEPT[v]
        elif c == 'VAR':
            c = VARS[(VARS.index(v) + 1) % max(n, 2)]     # a concept spelled like (another) variable
        out.append((v, ':instance', c))
    return out


def orderings(triples, mode='all'):
    if mode == 'all':
        yield from itertools.permutations(triples)
    elif mode == 'adjacent1':
        base = list(triples)
        yield tuple(base)
        for i in range(len(base) - 1):
            b = list(base)
            b[i], b[i + 1] = b[i + 1], b[i]
            yield tuple(b)
    elif mode == 'adjacent2':
        # depth-first order and everything within two adjacent transpositions of it
        base = list(triples)
        seen = set()
        n = len(base)
        cands = [base]
        for i in range(n - 1):
            b = list(base)
            b[i], b[i + 1] = b[i + 1], b[i]
            cands.append(b)
            for j in range(n - 1):
                c = list(b)
                c[j], c[j + 1] = c[j + 1], c[j]
                cands.append(c)
        for c in cands:
            k = tuple(map(repr, c))
            if k not in seen:
                seen.add(k)
                yield tuple(c)
    else:
        raise KeyError(mode)


def totriples(x):
    return [tuple(t) for t in x]
