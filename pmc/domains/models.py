"""Model families (DESIGN.md 3.1): DEFAULT, AMR, NOOP, MINI and the TINY* family.

get(name) -> (penman model, RefModel).  The penman objects are built lazily
(after the engine has put the tree under test on sys.path).
"""

import itertools

from pmc.ref.roles import RefModel

MINI = {
    'roles': {
        ':ARG0': {'type': 'frame'}, ':ARG1': {'type': 'frame'},
        ':accompanier': {'type': 'general'}, ':domain': {'type': 'general'},
        ':consist-of': {'type': 'general'}, ':mod': {'type': 'general'},
        ':op[0-9]+': {'type': 'op'},
    },
    'normalizations': {':mod-of': ':domain', ':domain-of': ':mod'},
    'reifications': [
        (':accompanier', 'accompany-01', ':ARG0', ':ARG1'),
        (':mod', 'have-mod-91', ':ARG1', ':ARG2'),
    ],
}

_cache = {}


def _tiny_specs():
    """TINY family: every subset of a 4-role universe x canonical-valued normalisation tables."""
    universe = [':a', ':a-of', ':b', ':c[0-9]']
    norm_items = [(':a-of', ':b'), (':b-of', ':a'), (':a', ':b-of'), (':c1-of', ':a')]
    specs = {}
    k = 0
    for r in range(len(universe) + 1):
        for roles in itertools.combinations(universe, r):
            for nr in range(len(norm_items) + 1):
                for norms in itertools.combinations(norm_items, nr):
                    nd = dict(norms)
                    # tables whose value is again a key are excluded (idempotence unsatisfiable)
                    if any(v in nd for v in nd.values()):
                        continue
                    # ... and tables whose value is not canonical under the role table: a collision
                    # role (X with X-of defined, X not) or an inversion of a collision-free defined role
                    if any((v + '-of') in roles and v not in roles for v in nd.values()):
                        continue
                    specs[f'TINY{k}'] = {'roles': {x: {} for x in roles}, 'normalizations': nd, 'reifications': []}
                    k += 1
    return specs


TINY = _tiny_specs()
MINITOP = dict(MINI, top_role=':ROOT', top_variable='root')
TINY_REIF = {
    'TREIF1': {'roles': {':a': {}, ':x': {}, ':y': {}, ':b': {}}, 'normalizations': {}, 'reifications': [(':a', 'ra', ':x', ':y')]},
    'TREIF2': {'roles': {':a': {}, ':x': {}, ':y': {}, ':b': {}}, 'normalizations': {},
               'reifications': [(':a', 'ra', ':x', ':y'), (':b', 'rb', ':y', ':x')]},
}


def names(kind='core'):
    if kind == 'core':
        return ['DEFAULT', 'AMR', 'NOOP', 'MINI']
    if kind == 'deinverting':
        return ['DEFAULT', 'AMR', 'MINI']
    if kind == 'tiny':
        return list(TINY)
    raise KeyError(kind)


def spec(name):
    if name == 'MINI':
        return MINI
    if name == 'MINITOP':
        return MINITOP
    if name in TINY:
        return TINY[name]
    if name in TINY_REIF:
        return TINY_REIF[name]
    raise KeyError(name)


def get(name):
    if name in _cache:
        return _cache[name]
    from penman.model import Model
    if name == 'DEFAULT':
        pm = Model()
        rm = RefModel(name=name)
    elif name == 'NOOP':
        from penman.models import noop
        pm = noop.model
        rm = RefModel(noop=True, name=name)
    elif name == 'AMR':
        from penman.models import amr
        pm = amr.model
        # the AMR *tables* are data the property is about; the algebra on them is the reference's own
        rm = RefModel(list(amr.roles), dict(amr.normalizations), list(amr.reifications), name=name)
    else:
        sp = spec(name)
        extra = {k: sp[k] for k in ('top_role', 'top_variable') if k in sp}
        pm = Model.from_dict(dict({'roles': dict(sp['roles']), 'normalizations': dict(sp['normalizations']),
                                   'reifications': [tuple(r) for r in sp['reifications']]}, **extra))
        rm = RefModel(list(sp['roles']), dict(sp['normalizations']), [tuple(r) for r in sp['reifications']],
                      top_role=sp.get('top_role', ':TOP'), name=name)
    _cache[name] = (pm, rm)
    return pm, rm
