"""Tree family TREE(N, B, D) of DESIGN.md 3.3.

A tree node is (var, [(role, target), ...]); target is atomic (str/None) or a
node.  Enumeration is two-phase: all ordered *shapes* with at most N nodes, B
branches in total and depth D, then every *decoration* of a shape over an
alphabet (concept per node, role per branch, atom per atomic slot).  The
enumeration order is deterministic and simplest-first.
"""

import itertools

VARS = ['a', 'b', 'c', 'd', 'e']
ABSENT = '<absent>'      # no '/' branch at all
NOCONCEPT = '<none>'     # '/' branch with a missing concept: (a /)
EMPTY = 'E'              # the empty node () as a nested target


ALPHABETS = {
    'wide': {
        'concepts': [ABSENT, 'x', 'a', NOCONCEPT, '"s"', 'x~1'],
        'roles': [':r', ':q', ':r-of', ':q-of-k-of', ':', ':r~e.3', ':r-of~e.2', ':op1', ':op2', ':op10'],
        'atoms': ['k', '7', '-', '"s t"', '"(~/:#\\""', '"s"~e2', None, 'c'],
        'refs': 'all+aligned',
    },
    'mid': {
        'concepts': [ABSENT, 'x', 'a'],
        'roles': [':r', ':q', ':r-of', ':r~1'],
        'atoms': ['k', '"s"~1', 'c'],
        'refs': 'all+aligned0',
    },
    'narrow': {
        'concepts': [ABSENT, 'x'],
        'roles': [':r', ':r-of'],
        'atoms': ['k'],
        'refs': 'all',
    },
}


def alphabet(name, roles=None, atoms=None, concepts=None):
    a = dict(ALPHABETS[name])
    if roles is not None:
        a['roles'] = list(roles)
    if atoms is not None:
        a['atoms'] = list(atoms)
    if concepts is not None:
        a['concepts'] = list(concepts)
    return a


# ------------------------------------------------------------------ shapes

def shapes(N, B, D, empty_nodes=False):
    """All shapes, smallest first.  shape = tuple of children; child = 'A' | 'E' | shape."""
    out = []

    def gen(nodes_left, branches_left, depth_left):
        # yields (shape, nodes_used, branches_used) for one node
        def children(nl, bl):
            # sequences of children using at most nl further nodes and bl branches
            yield (), 0, 0
            if bl == 0:
                return
            # first child atomic
            for rest, n2, b2 in children(nl, bl - 1):
                yield ('A',) + rest, n2, b2 + 1
            if empty_nodes:
                for rest, n2, b2 in children(nl, bl - 1):
                    yield (EMPTY,) + rest, n2, b2 + 1
            if nl > 0 and depth_left > 1:
                for sub, n1, b1 in gen(nl, bl - 1, depth_left - 1):
                    for rest, n2, b2 in children(nl - n1, bl - 1 - b1):
                        yield (sub,) + rest, n1 + n2, b1 + b2 + 1
        for ch, n, b in children(nodes_left - 1, branches_left):
            yield ch, n + 1, b

    for sh, n, b in gen(N, B, D):
        out.append((n, b, sh))
    out.sort(key=lambda x: (x[0] + x[1], x[0], repr(x[2])))
    return [x[2] for x in out]


def count_nodes(shape):
    return 1 + sum(count_nodes(c) for c in shape if isinstance(c, tuple))


# ------------------------------------------------------------------ decoration

def slots(shape, alpha, dupvars=False):
    """Slot domains in depth-first order and a builder turning a choice tuple into a tree."""
    n = count_nodes(shape)
    refs = []
    mode = alpha.get('refs', 'all')
    for i in range(n):
        refs.append(VARS[i])
    if mode == 'all+aligned':
        refs = refs + [v + '~e.3' for v in refs]
    elif mode == 'all+aligned0':
        refs = refs + [VARS[0] + '~e.3']
    elif mode == 'all+alignedself':
        # alignment whose prefix letter is spelled like the variable itself: a~a.3; and a prefix-less one: a~4
        refs = refs + [v + '~' + v + '.3' for v in refs] + [v + '~4' for v in refs]
    elif mode == 'none':
        refs = []
    atoms = list(dict.fromkeys(list(alpha['atoms']) + refs))     # a constant spelled like a variable of this tree is that reference
    domains = []
    counter = [0]

    def plan(sh):
        idx = counter[0]
        counter[0] += 1
        if dupvars and idx > 0:
            domains.append([VARS[idx], VARS[0]])
            vslot = len(domains) - 1
        else:
            vslot = None
        domains.append(alpha['concepts'])
        cslot = len(domains) - 1
        kids = []
        for c in sh:
            domains.append(alpha['roles'])
            rslot = len(domains) - 1
            if c == 'A':
                domains.append(atoms)
                kids.append((rslot, 'A', len(domains) - 1))
            elif c == EMPTY:
                kids.append((rslot, 'E', None))
            else:
                kids.append((rslot, 'N', plan(c)))
        return (idx, vslot, cslot, kids)

    p = plan(shape)

    def build(choice, node=p):
        idx, vslot, cslot, kids = node
        var = VARS[idx] if vslot is None else choice[vslot]
        branches = []
        c = choice[cslot]
        if c is NOCONCEPT or c == NOCONCEPT:
            branches.append(('/', None))
        elif c != ABSENT:
            branches.append(('/', c))
        for rslot, kind, x in kids:
            if kind == 'A':
                branches.append((choice[rslot], choice[x]))
            elif kind == 'E':
                branches.append((choice[rslot], (None, [])))
            else:
                branches.append((choice[rslot], build(choice, x)))
        return (var, branches)

    return domains, build


def enumerate_trees(shape, alpha, dupvars=False, fixed=()):
    """All decorations of shape; `fixed` pins the first len(fixed) slots to given indices (sharding)."""
    domains, build = slots(shape, alpha, dupvars)
    doms = [[d[i]] for d, i in zip(domains, fixed)] + domains[len(fixed):]
    for choice in itertools.product(*doms):
        yield build(choice)


def shard_list(N, B, D, alpha_name, alpha=None, dupvars=False, empty_nodes=False, pin=2, extra=None):
    """One shard per (shape, values of the first `pin` slots)."""
    a = alpha or ALPHABETS[alpha_name]
    out = []
    for si, sh in enumerate(shapes(N, B, D, empty_nodes)):
        domains, _ = slots(sh, a, dupvars)
        k = min(pin, len(domains))
        for fixed in itertools.product(*[range(len(d)) for d in domains[:k]]):
            d = {'N': N, 'B': B, 'D': D, 'alpha': alpha_name, 'shape': si, 'fixed': list(fixed),
                 'dupvars': dupvars, 'empty': empty_nodes}
            if extra:
                d.update(extra)
            out.append(d)
    return out


_shape_cache = {}


def shard_trees(shard, alpha=None):
    key = (shard['N'], shard['B'], shard['D'], shard.get('empty', False))
    if key not in _shape_cache:
        _shape_cache[key] = shapes(*key)
    sh = _shape_cache[key][shard['shape']]
    a = alpha or ALPHABETS[shard['alpha']]
    return enumerate_trees(sh, a, shard.get('dupvars', False), tuple(shard['fixed']))


def totuple(x):
    """JSON lists back to the tuple/list structure of a tree node."""
    if isinstance(x, (list, tuple)) and len(x) == 2 and isinstance(x[1], (list, tuple)) and \
            (x[0] is None or isinstance(x[0], str)) and all(isinstance(b, (list, tuple)) and len(b) == 2 for b in x[1]):
        return (x[0], [(b[0], totuple(b[1])) for b in x[1]])
    return x


def count(N, B, D, alpha_name, **kw):
    n = 0
    for sh in shapes(N, B, D, kw.get('empty_nodes', False)):
        domains, _ = slots(sh, ALPHABETS[alpha_name], kw.get('dupvars', False))
        k = 1
        for d in domains:
            k *= len(d)
        n += k
    return n
