"""Runner for the bounded-exhaustive checks (DESIGN.md section 2.5).

A property module (pmc/props/cNN.py) provides

    ID, TITLE, ASSUMPTIONS (list of str), RULE (str)
    shards(tier, seed) -> list of JSON-able shard descriptors
    cases(shard)       -> iterator of JSON-able case descriptors (deterministic)
    check(case, ctx)   -> runs the REAL penman code on the case, compares with
                          the oracle and calls ctx.fail(...) on disagreement

The runner distributes shards over a pool of long-lived worker processes,
merges the results in shard order (so the first reported counterexample is
the smallest in enumeration order whatever the scheduling), re-executes each
failing case from its descriptor (a failure that does not reproduce is a
harness error, exit 3), applies KNOWN_FINDINGS.txt, writes replay files and
the evidence file, and prints VIOLATION / KNOWN-FINDING lines.
"""

import collections
import hashlib
import importlib
import json
import multiprocessing
import os
import sys
import time
import traceback

VERIF = os.path.dirname(os.path.dirname(os.path.dirname(os.path.abspath(__file__))))
REPO = os.environ.get('VERIF_REPO', '/repo')
MAX_PRINT = 5
MAX_WRITE = 50
MAX_FAILS_PER_SHARD = 200


def setup_path():
    """Make `import penman` resolve to the current working tree of REPO."""
    if sys.path[0] != REPO:
        sys.path.insert(0, REPO)
    for name in list(sys.modules):
        if name == 'penman' or name.startswith('penman.'):
            mod = sys.modules[name]
            f = getattr(mod, '__file__', '') or ''
            if not f.startswith(REPO + os.sep):
                del sys.modules[name]
    import logging
    logging.disable(logging.CRITICAL)
    import penman
    f = os.path.realpath(penman.__file__)
    if not f.startswith(os.path.realpath(REPO) + os.sep):
        raise RuntimeError(f'penman imported from {f}, expected under {REPO}')


def canon(obj):
    """Stable JSON text for descriptors (also used as the failure key)."""
    return json.dumps(obj, sort_keys=True, ensure_ascii=True, default=repr)


class Ctx:
    """Per-shard accumulator handed to check()."""

    def __init__(self, prop, sub=None):
        self.prop = prop
        self.sub = sub
        self.evals = 0          # cases generated
        self.transitions = 0    # real API executions whose result was checked
        self.validated = 0      # reference-model predictions compared with the impl
        self.nontrivial = 0     # cases that are non-trivial by the module's RULE
        self.cats = collections.Counter()   # outcome categories (vacuity indicator)
        self.outcomes = set()   # hashes of distinct observed outcomes (bounded)
        self.fails = []
        self.samples = []
        self.caps = []
        self.max_depth = 0
        self.case = None

    def fail(self, msg, expected=None, observed=None, case=None, repro=None, hang=False):
        if len(self.fails) >= MAX_FAILS_PER_SHARD:
            self.cats['fails_dropped_after_cap'] += 1
            return
        self.fails.append({
            'index': self.evals - 1,
            'shard': getattr(self, 'shard', None),
            'sub': self.sub,
            'case': self.case if case is None else case,
            'msg': msg,
            'expected': _j(expected),
            'observed': _j(observed),
            'repro': repro,
            'hang': hang,
        })

    def outcome(self, obj):
        if len(self.outcomes) < 20000:
            self.outcomes.add(hash(obj if isinstance(obj, (str, tuple, int)) else canon(obj)))

    def cap(self, text):
        if text not in self.caps:
            self.caps.append(text)


def _j(x):
    try:
        json.dumps(x)
        return x
    except (TypeError, ValueError):
        return repr(x)


def _load(prop):
    return importlib.import_module('pmc.props.' + prop.lower())


_SAMPLE_SLOTS = 3


class Hang(BaseException):
    pass


def _on_alarm(signum, frame):
    raise Hang()


HANG_SECONDS = 15      # CPU seconds (ITIMER_VIRTUAL): independent of machine load


_PROGRESS = None      # (RawArray, slot) set in pool workers


def run_shard(args):
    import signal
    prop, shard = args[0], args[1]
    skip = set(args[2]) if len(args) > 2 else ()
    mod = _load(prop)
    ctx = Ctx(prop, shard.get('sub'))
    ctx.shard = shard
    stop_after = args[3] if len(args) > 3 else None
    t0 = time.time()
    first = last = None
    mid = None
    n = 0
    signal.signal(signal.SIGVTALRM, _on_alarm)
    hangs = 0
    try:
        for case in mod.cases(shard):
            ctx.case = case
            ctx.evals += 1
            n += 1
            if _PROGRESS is not None:
                _PROGRESS[0][_PROGRESS[1]] = n
            if skip and (n - 1) in skip:
                continue
            if first is None:
                first = case
            elif n & (n - 1) == 0:     # powers of two: a cheap "somewhere in the middle"
                mid = case
            last = case
            signal.setitimer(signal.ITIMER_VIRTUAL, HANG_SECONDS)
            try:
                run_check(mod, case, ctx)
            except Hang:
                ctx.fail(f'hang: the case did not finish within {HANG_SECONDS} CPU-seconds (termination)', hang=True)
                hangs += 1
                if hangs >= 2:
                    ctx.cap('shard abandoned after two cases that did not terminate')
                    break
            finally:
                signal.setitimer(signal.ITIMER_VIRTUAL, 0)
            if stop_after is not None and n - 1 >= stop_after:
                break
    except Exception:
        signal.setitimer(signal.ITIMER_VIRTUAL, 0)
        return {'shard': shard, 'error': traceback.format_exc(), 'case': _j(ctx.case)}
    samples = [c for c in (first, mid, last) if c is not None]
    return {
        'shard': shard, 'evals': ctx.evals, 'transitions': ctx.transitions,
        'validated': ctx.validated, 'nontrivial': ctx.nontrivial,
        'cats': dict(ctx.cats), 'outcomes': list(ctx.outcomes)[:20000],
        'fails': ctx.fails, 'samples': samples, 'caps': ctx.caps,
        'max_depth': ctx.max_depth, 'wall': time.time() - t0,
    }


def run_check(mod, case, ctx):
    """mod.check, with an exception that comes out of a library call turned into a failure of the case."""
    try:
        mod.check(case, ctx)
    except Hang:
        raise
    except Exception as e:      # noqa: BLE001
        where = _raised_in_library(e)
        if where is None:
            raise               # a problem of the check itself: harness error
        # the check called the library and an exception it does not anticipate came out of it: on this input
        # the unchanged tree does not raise (the check is silent there), so this is a behaviour change
        ctx.fail(f'the library raised {type(e).__name__} where the check expects a result', observed=[str(e)[:200], where])


def _raised_in_library(exc):
    """If the exception left the check through a call into the library under test, return 'file:line' of the
    library frame that was entered from the check; None when the exception was raised by the check's own code."""
    import penman
    pkg = os.path.dirname(os.path.abspath(penman.__file__)) + os.sep
    here = os.path.dirname(os.path.dirname(os.path.abspath(__file__))) + os.sep      # .../pmc/
    frames = []
    tb = exc.__traceback__
    while tb is not None:
        frames.append((os.path.abspath(tb.tb_frame.f_code.co_filename), tb.tb_lineno))
        tb = tb.tb_next
    last_pmc = max((i for i, (f, _) in enumerate(frames) if f.startswith(here)), default=None)
    if last_pmc is None or last_pmc + 1 >= len(frames):
        return None
    # the frames below the check's last frame: the first one that is not the standard library must be the package
    for f, line in frames[last_pmc + 1:]:
        if f.startswith(pkg):
            return f'{os.path.relpath(f, os.path.dirname(pkg.rstrip(os.sep)))}:{line}'
        if f.startswith(here):
            return None
    return None


def _init_worker():
    setup_path()


KILL_SECONDS = 30      # CPU seconds burnt by a worker without finishing a case
KILL_WALL_SECONDS = 900   # wall-clock fallback (a worker blocked without using CPU)


def _cpu_seconds(pid):
    try:
        with open(f'/proc/{pid}/stat') as fh:
            f = fh.read().rsplit(')', 1)[1].split()
        return (int(f[11]) + int(f[12])) / os.sysconf('SC_CLK_TCK')
    except Exception:       # noqa: BLE001
        return 0.0
MAX_HANGS = 2


def _worker_main(conn, progress, slot):
    global _PROGRESS
    _PROGRESS = (progress, slot)
    setup_path()
    history = []        # indices of the shards this worker has run so far, in order
    while True:
        try:
            msg = conn.recv()
        except EOFError:
            return
        if msg is None:
            return
        idx, args = msg
        progress[slot] = 0
        res = run_shard(args)
        res['worker_history'] = list(history)
        history.append(idx)
        conn.send((idx, res))


def run_history(args):
    """Run a list of shards in order in this (fresh) process; return the result of the last one."""
    prop, shard_list = args
    res = None
    for sh in shard_list:
        res = run_shard((prop, sh))
    return res


def run_pool(prop, mod, shards, jobs):
    """Own process pool: long-lived fork workers, results by shard index, and a
    watchdog that survives hangs inside C code (e.g. a backtracking regex): a
    worker whose per-case progress counter has not moved for KILL_SECONDS is
    killed, the case it was on is recovered by re-enumerating the shard and
    reported as a termination failure, and the shard is re-run without it."""
    import multiprocessing.connection as mpc
    ctxmp = multiprocessing.get_context('fork')
    progress = ctxmp.RawArray('q', jobs)
    workers = [None] * jobs

    def spawn(slot):
        parent, child = ctxmp.Pipe()
        p = ctxmp.Process(target=_worker_main, args=(child, progress, slot), daemon=False)
        p.start()
        child.close()
        workers[slot] = {'proc': p, 'conn': parent, 'busy': None, 'last': 0, 'since': time.time(), 'cpu': 0.0}

    for i in range(jobs):
        spawn(i)
    results = [None] * len(shards)
    queue = [(i, (prop, s)) for i, s in enumerate(shards)]
    queue.reverse()
    pending = len(shards)
    hang_fails = []
    hangs = 0
    aborted = False
    while pending and not aborted:
        for slot, w in enumerate(workers):
            if w['busy'] is None and queue:
                idx, args = queue.pop()
                w['busy'] = (idx, args)
                w['last'] = 0
                w['since'] = time.time()
                w['cpu'] = _cpu_seconds(w['proc'].pid)
                progress[slot] = 0
                w['conn'].send((idx, args))
        ready = mpc.wait([w['conn'] for w in workers if w['busy'] is not None], timeout=1.0)
        for slot, w in enumerate(workers):
            if w['busy'] is None:
                continue
            if w['conn'] in ready:
                try:
                    idx, res = w['conn'].recv()
                except EOFError:
                    idx, res = w['busy'][0], {'shard': w['busy'][1][1], 'error': 'worker process died', 'case': None}
                    spawn(slot)
                    w = workers[slot]
                results[idx] = res
                w['busy'] = None
                pending -= 1
                soft = sum(1 for f in res.get('fails', []) if f.get('hang'))
                if soft:
                    hangs += soft
                    if hangs >= MAX_HANGS:
                        # non-terminating cases found: stop exploring, report what was found
                        aborted = True
                        break
                continue
            cur = progress[slot]
            now = time.time()
            if cur != w['last']:
                w['last'] = cur
                w['since'] = now
                w['cpu'] = _cpu_seconds(w['proc'].pid)
            elif (now - w['since'] > 5 and _cpu_seconds(w['proc'].pid) - w['cpu'] > KILL_SECONDS) or now - w['since'] > KILL_WALL_SECONDS:
                idx, args = w['busy']
                w['proc'].kill()
                w['proc'].join()
                n = cur - 1
                case = None
                for k, c in enumerate(mod.cases(args[1])):
                    if k == n:
                        case = c
                        break
                hang_fails.append({'sub': args[1].get('sub'), 'case': case, 'hang': True,
                                   'msg': f'hang: the case burnt more than {KILL_SECONDS} CPU-seconds without finishing and could not be interrupted (termination)',
                                   'expected': 'a result or a documented error', 'observed': 'no return', 'repro': None})
                hangs += 1
                spawn(slot)
                if hangs >= MAX_HANGS:
                    aborted = True
                    break
                skip = list(args[2]) if len(args) > 2 else []
                queue.append((idx, (args[0], args[1], skip + [n])))
    for w in workers:
        try:
            if aborted:
                w['proc'].kill()
            else:
                w['conn'].send(None)
        except Exception:
            pass
    for w in workers:
        w['proc'].join(timeout=5)
        if w['proc'].is_alive():
            w['proc'].kill()
    if aborted and hang_fails:
        hang_fails[0]['msg'] += f' | exploration aborted after {hangs} hangs'
    return results, hang_fails


def load_known():
    known, fixed = [], []
    path = os.path.join(VERIF, 'KNOWN_FINDINGS.txt')
    if not os.path.exists(path):
        return known, fixed
    for line in open(path, encoding='utf-8'):
        line = line.strip()
        if not line or line.startswith('#'):
            continue
        if line.startswith('known:'):
            # known: property=C06 match=<json string> <what fails>
            rest = line[len('known:'):].strip()
            parts = rest.split(' ', 2)
            prop = parts[0].split('=', 1)[1]
            match = json.loads(parts[1].split('=', 1)[1]) if parts[1].startswith('match="') else parts[1].split('=', 1)[1]
            known.append({'prop': prop, 'match': match, 'text': parts[2] if len(parts) > 2 else ''})
        elif line.startswith('fixed:'):
            fixed.append(line)
    return known, fixed


def fail_key(f):
    return canon({'sub': f['sub'], 'case': f['case']})


def reproduce(prop, f):
    """Re-execute a failing case twice from its descriptor."""
    mod = _load(prop)
    msgs = []
    for _ in range(2):
        ctx = Ctx(prop, f['sub'])
        ctx.case = f['case']
        try:
            run_check(mod, json.loads(json.dumps(f['case'])), ctx)
        except Exception:
            return False, 'replay raised: ' + traceback.format_exc()
        msgs.append([x['msg'] for x in ctx.fails])
    if msgs[0] != msgs[1]:
        return False, f'two replays differ: {msgs}'
    if f['msg'] not in msgs[0]:
        return False, f'failure {f["msg"]!r} did not reproduce; replays gave {msgs[0]}'
    return True, ''


def reproduce_in_worker_history(prop, f, shards):
    """Last resort: replay, in a fresh spawned interpreter, every shard the worker had run before
    the one that failed (state leaking between unrelated inputs), then the failing shard."""
    hist = f.get('worker_history')
    if not hist or f.get('shard') is None:
        return False
    seq = [shards[i] for i in hist] + [f['shard']]
    ctxmp = multiprocessing.get_context('spawn')
    with ctxmp.Pool(1, initializer=_init_worker) as pool:
        r = pool.apply(run_history, ((prop, seq),))
    if r is None or 'error' in r:
        return False
    for x in r['fails']:
        if x['msg'] == f['msg']:
            f['case'], f['index'], f['expected'], f['observed'] = x['case'], x['index'], x['expected'], x['observed']
            f['history_shards'] = seq
            return True
    return False


def reproduce_in_history(prop, f):
    """A failure that does not reproduce from its case alone may depend on the calls made
    before it (shared mutable state in the library).  Re-run the shard up to that case in a
    fresh process: if the same failure appears again it is deterministic given the history,
    i.e. a genuine violation whose replay is the shard prefix."""
    if f.get('shard') is None or f.get('index') is None:
        return False
    ctxmp = multiprocessing.get_context('spawn')     # a really fresh interpreter, no inherited library state
    with ctxmp.Pool(1, initializer=_init_worker) as pool:
        r = pool.apply(run_shard, ((prop, f['shard']),))
    if 'error' in r:
        return False
    # the worker that found it had also run other shards before, so the index may differ:
    # the same failure message anywhere in a fresh run of the shard counts
    for x in r['fails']:
        if x['msg'] == f['msg']:
            f['case'], f['index'], f['expected'], f['observed'] = x['case'], x['index'], x['expected'], x['observed']
            return True
    return False


def write_replay(prop, f):
    d = os.path.join(VERIF, 'replays', prop)
    os.makedirs(d, exist_ok=True)
    h = hashlib.sha1((fail_key(f) + f['msg']).encode()).hexdigest()[:16]
    path = os.path.join(d, h + '.json')
    with open(path, 'w', encoding='utf-8') as fh:
        json.dump({'property': prop, 'sub': f['sub'], 'case': f['case'], 'message': f['msg'],
                   'history_dependent': bool(f.get('history_dependent')), 'shard': f.get('shard'), 'index': f.get('index'),
                   'history_shards': f.get('history_shards'),
                   'expected': f['expected'], 'observed': f['observed'],
                   'repro_python': f.get('repro')}, fh, indent=1, ensure_ascii=True)
    return path


def main(argv=None):
    import argparse
    ap = argparse.ArgumentParser(prog='check')
    ap.add_argument('prop')
    ap.add_argument('--tier', default=os.environ.get('VERIF_TIER') or 'quick', choices=['quick', 'thorough'])
    ap.add_argument('--replay')
    ap.add_argument('--jobs', type=int, default=int(os.environ.get('VERIF_JOBS', '0')) or min(16, os.cpu_count() or 1))
    ap.add_argument('--only', help='run only shards of this sub-check')
    args = ap.parse_args(argv)
    prop = args.prop.upper()
    try:
        seed = int(os.environ.get('VERIF_SEED', '0') or 0)
    except ValueError:
        seed = 0
    os.environ.setdefault('PYTHONHASHSEED', '0')
    setup_path()
    mod = _load(prop)

    if args.replay:
        return replay_file(prop, mod, args.replay)

    t0 = time.time()
    shards = mod.shards(args.tier, seed)
    if args.only:
        shards = [s for s in shards if s.get('sub') == args.only]
    jobs = max(1, min(args.jobs, len(shards)))
    results = []
    hang_fails = []
    if jobs == 1 and not os.environ.get('VERIF_FORCE_POOL'):
        for s in shards:
            results.append(run_shard((prop, s)))
    else:
        results, hang_fails = run_pool(prop, mod, shards, jobs)

    if hasattr(mod, 'teardown'):
        import atexit
        atexit.register(mod.teardown)      # reproduction runs (below) may create scratch files again
        try:
            mod.teardown()
        except Exception:       # noqa: BLE001
            pass
    errors = [r for r in results if r is not None and 'error' in r]
    if errors:
        for r in errors[:3]:
            print(f'HARNESS-ERROR property={prop} shard={canon(r["shard"])} case={canon(r["case"])}\n{r["error"]}', file=sys.stderr)
        return 3

    tot = collections.Counter()
    cats = collections.Counter()
    per_sub = collections.OrderedDict()
    outcomes = set()
    fails, samples, caps = [], [], []
    max_depth = 0
    fails.extend(hang_fails)
    for r in results:
        if r is None:
            continue
        for k in ('evals', 'transitions', 'validated', 'nontrivial'):
            tot[k] += r[k]
        cats.update(r['cats'])
        outcomes.update(r['outcomes'])
        for x in r['fails']:
            x['worker_history'] = r.get('worker_history', [])
        fails.extend(r['fails'])
        max_depth = max(max_depth, r['max_depth'])
        for c in r['caps']:
            if c not in caps:
                caps.append(c)
        sub = r['shard'].get('sub', 'main')
        ps = per_sub.setdefault(sub, {'shards': 0, 'cases': 0, 'transitions': 0, 'bounds': r['shard'].get('bounds'), 'samples': []})
        ps['shards'] += 1
        ps['cases'] += r['evals']
        ps['transitions'] += r['transitions']
        if r['samples'] and len(ps['samples']) < 3:
            ps['samples'].append(r['samples'][len(ps['samples']) % len(r['samples'])])
    for sub, ps in per_sub.items():
        for s in ps['samples']:
            samples.append({'sub': sub, 'case': s})

    known, _fixed = load_known()
    known = [k for k in known if k['prop'] == prop]
    seen_sig = {}
    violations, known_hits = [], collections.OrderedDict()
    harness_errors = []
    confirmed_history = set()
    for f in fails:
        key = fail_key(f)
        hit = next((k for k in known if k['match'] in key), None)
        if hit is not None:
            known_hits.setdefault(hit['match'], [hit, 0])
            known_hits[hit['match']][1] += 1
            continue
        sig = (f['sub'], f['msg'].split('|')[0])
        if sig in seen_sig:
            seen_sig[sig] += 1
            if seen_sig[sig] > 3 or len(violations) >= MAX_WRITE:
                continue
        else:
            seen_sig[sig] = 1
            if len(violations) >= MAX_WRITE:
                continue
        ok, why = (True, '') if f.get('hang') else reproduce(prop, f)
        if not ok:
            sig_key = ('hist',) + sig
            if reproduce_in_history(prop, f):
                f['history_dependent'] = True
                f['msg'] += ' | history-dependent: passes on a fresh interpreter, fails (reproducibly) after the preceding cases of its shard'
            elif sig_key in confirmed_history or reproduce_in_worker_history(prop, f, shards):
                confirmed_history.add(sig_key)
                f['history_dependent'] = True
                f['msg'] += ' | history-dependent: passes on a fresh interpreter and in a fresh run of its shard, fails (reproducibly) after the shards its worker process had run before'
            else:
                harness_errors.append((f, why))
                continue
        violations.append(f)

    wall = time.time() - t0
    n_viol = sum(seen_sig.values()) if violations else 0
    evidence = {
        'property_id': prop, 'tier': args.tier, 'seed': seed, 'level': 'model_checking',
        'coverage': {
            # explicit-state checks count the distinct states they hashed (cats['states']); the others
            # enumerate each input once, so the number of cases is the number of distinct states
            'states': max(tot['evals'], cats.get('states', 0)),
            'transitions': max(tot['transitions'], 0),
            'traces_validated_against_impl': tot['validated'],
            'evaluations': tot['evals'],
            'distinct_nontrivial': tot['nontrivial'],
            'rule': getattr(mod, 'RULE', ''),
            'samples': samples[:40],
            'exhaustive': not caps,
            'caps_hit': caps,
            'shards': len(shards),
            'sub_checks': {k: {'shards': v['shards'], 'cases': v['cases'], 'transitions': v['transitions'], 'bounds': v['bounds']} for k, v in per_sub.items()},
            'outcome_categories': dict(sorted(cats.items())),
            'distinct_observed_outcomes': len(outcomes),
            'max_depth': max_depth,
            'known_findings_matched': {m: c for m, (k, c) in known_hits.items()},
            'repo': REPO,
        },
        'assumptions': list(getattr(mod, 'ASSUMPTIONS', [])),
        'wall_s': round(wall, 2),
        'violations': n_viol,
    }
    if evidence['coverage']['transitions'] < 1:
        evidence['coverage']['transitions'] = tot['evals']
    if REPO == '/repo' and not args.only:
        os.makedirs(os.path.join(VERIF, 'evidence'), exist_ok=True)
        with open(os.path.join(VERIF, 'evidence', prop + '.json'), 'w', encoding='utf-8') as fh:
            json.dump(evidence, fh, indent=1, ensure_ascii=True)
            fh.write('\n')

    print(f'{prop} tier={args.tier} seed={seed} shards={len(shards)} cases={tot["evals"]} '
          f'executions={evidence["coverage"]["transitions"]} validated={tot["validated"]} '
          f'nontrivial={tot["nontrivial"]} outcomes={len(outcomes)} wall={wall:.1f}s')
    for sub, ps in per_sub.items():
        print(f'  {sub}: cases={ps["cases"]} executions={ps["transitions"]} bounds={ps["bounds"]}')
    for c in caps:
        print(f'  CAP: {c}')
    for m, (k, c) in known_hits.items():
        print(f'KNOWN-FINDING: property={prop} {k["text"]} (matched {c} cases)')
    if harness_errors and not violations:
        for f, why in harness_errors[:3]:
            print(f'HARNESS-ERROR property={prop} case={canon(f["case"])} {why}', file=sys.stderr)
        return 3
    for f, why in harness_errors[:3]:
        print(f'  note: a further failure was observed but could not be reproduced from its history: {canon(f["case"])[:200]}', file=sys.stderr)
    if violations:
        for i, f in enumerate(violations):
            path = write_replay(prop, f)
            if i < MAX_PRINT:
                print(f'VIOLATION property={prop} replay={path}')
                print(f'  [{f["sub"]}] {f["msg"]}\n    case={canon(f["case"])[:600]}\n    expected={str(f["expected"])[:400]}\n    observed={str(f["observed"])[:400]}')
        print(f'  ({n_viol} failing cases, {len(seen_sig)} distinct signatures)')
        return 1
    return 0


def replay_file(prop, mod, path):
    d = json.load(open(path, encoding='utf-8'))
    if d.get('history_dependent'):
        for sh in (d.get('history_shards') or [])[:-1]:
            run_shard((prop, sh))
        r = run_shard((prop, d['shard'], (), d['index']))
        hits = [x for x in r.get('fails', []) if x['index'] == d['index']]
        if 'error' in r:
            print(r['error'])
            return 3
        if hits:
            print(f'VIOLATION property={prop} replay={path}')
            print(f'  [{hits[0]["sub"]}] {hits[0]["msg"]} (after replaying the {d["index"]} preceding cases of its shard)')
            return 1
        print(f'{prop}: replay of {path} passes')
        return 0
    ctx = Ctx(prop, d.get('sub'))
    ctx.case = d['case']
    run_check(mod, d['case'], ctx)
    if ctx.fails:
        for f in ctx.fails:
            print(f'VIOLATION property={prop} replay={path}')
            print(f'  [{f["sub"]}] {f["msg"]}\n    expected={str(f["expected"])[:600]}\n    observed={str(f["observed"])[:600]}')
        return 1
    print(f'{prop}: replay of {path} passes')
    return 0
