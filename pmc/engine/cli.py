"""In-process and sub-process harness for `python -m penman` (DESIGN.md 2.3).

run_main(argv, stdin_text) calls penman.__main__.main() with sys.argv / sys.stdin /
sys.stdout / sys.stderr replaced and SystemExit caught; returns (exit, stdout, stderr).
run_subprocess does the same through a real interpreter (conformance of the harness).
"""

import io
import os
import subprocess
import sys

from pmc.engine.core import REPO


class _Out(io.StringIO):
    """StringIO whose content survives close() (main() closes stdout under --quiet)."""

    def close(self):
        self.final = self.getvalue()
        super().close()

    def value(self):
        return self.final if self.closed else self.getvalue()


def run_main(argv, stdin_text=''):
    import logging
    import penman.__main__ as pm
    old = (sys.argv, sys.stdin, sys.stdout, sys.stderr)
    out, err = _Out(), _Out()
    sys.argv = ['penman'] + list(argv)
    sys.stdin = io.StringIO(stdin_text)
    sys.stdout, sys.stderr = out, err
    code = None
    try:
        try:
            pm.main()
        except SystemExit as e:
            code = e.code
            if code is None:
                code = 0
    finally:
        cur = sys.stdout
        sys.argv, sys.stdin, sys.stdout, sys.stderr = old
        if cur is not out and cur is not old[2]:
            try:
                cur.close()     # the devnull handle opened by --quiet
            except Exception:   # noqa: BLE001
                pass
        # main() calls logging.basicConfig() and sets the level of the 'penman' logger
        root = logging.getLogger()
        for h in list(root.handlers):
            root.removeHandler(h)
        logging.disable(logging.CRITICAL)
    return code, out.value(), err.value()


def run_subprocess(argv, stdin_text='', env_extra=None, timeout=60):
    env = dict(os.environ)
    env['PYTHONPATH'] = REPO
    env.setdefault('PYTHONHASHSEED', '0')
    if env_extra:
        env.update(env_extra)
    r = subprocess.run([sys.executable, '-m', 'penman'] + list(argv), input=stdin_text, capture_output=True, text=True,
                       env=env, cwd='/', timeout=timeout, encoding='utf-8')
    return r.returncode, r.stdout, r.stderr
