"""Reference role algebra (docs: penman.model API docs, docs/notation.rst).

A RefModel is plain data: role patterns, normalisation table, top/concept
role, and the `noop` flag (the no-op model never deinverts).  Membership is
decided pattern by pattern with re.fullmatch; nothing is imported from penman.
"""

import re


class RefModel:
    def __init__(self, roles=(), normalizations=None, reifications=(), top_role=':TOP',
                 concept_role=':instance', noop=False, name='model'):
        self.patterns = list(roles)
        self.normalizations = dict(normalizations or {})
        self.reifications = [tuple(r) for r in reifications]
        self.top_role = top_role
        self.concept_role = concept_role
        self.noop = noop
        self.name = name
        self._cache = {}

    # a role is defined if it is the top role, the concept role, or matches a pattern entirely
    def defined(self, role):
        r = self._cache.get(role)
        if r is None:
            r = role == self.top_role or role == self.concept_role or \
                any(re.fullmatch(p, role) is not None for p in self.patterns)
            self._cache[role] = r
        return r

    def has_role(self, role):
        """defined directly or as a single inversion"""
        return self.defined(role) or (role.endswith('-of') and self.defined(role[:-3]))

    def is_inverted(self, role):
        return role.endswith('-of') and not self.defined(role)

    def invert_role(self, role):
        if self.is_inverted(role):
            return role[:-3]
        return role + '-of'

    def invert(self, triple):
        s, r, t = triple
        return (t, self.invert_role(r), s)

    def deinvert(self, triple):
        if self.noop:
            return triple
        if self.is_inverted(triple[1]):
            return self.invert(triple)
        return triple

    def canonical_inversion(self, role):
        """inversions removed in pairs (parity kept); a model-defined role is left alone.

        Collision roles: when the model defines X-of but not X, tests/test_model.py pins X to be
        read as the inverse of X-of, whose canonical spelling is X-of-of (parity is kept)."""
        if not self.defined(role) and not role.endswith('-of') and self.defined(role + '-of'):
            return role + '-of-of'
        while not self.defined(role) and role.endswith('-of-of') and not self.defined(role[:-3]):
            role = role[:-6]
        return role

    def canonicalize_role(self, role):
        """colon, inversions removed in pairs, model normalisation applied last"""
        if role != '/' and not role.startswith(':'):
            role = ':' + role
        role = self.canonical_inversion(role)
        return self.normalizations.get(role, role)


def from_penman(model, noop=False, name='model'):
    """Build a RefModel from the *data* of a penman Model (tables only)."""
    reifs = []
    for role, lst in model.reifications.items():
        for concept, src, tgt in lst:
            reifs.append((role, concept, src, tgt))
    return RefModel(list(model.roles), model.normalizations, reifs, model.top_role, model.concept_role, noop, name)
