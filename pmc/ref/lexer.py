"""Reference scanner for the two token grammars, written from docs/notation.rst.

Deliberately naive: one character loop, no regular expressions, nothing
imported from penman.

Documented lexical grammar (docs/notation.rst):

    Symbol    <- NameChar+
    Role      <- ':' NameChar*
    Alignment <- '~' ([a-zA-Z] '.'?)? Digit+ (',' Digit+)*
    String    <- '"' (!'"' (StrEscape / StrChar))* '"'
    NameChar  <- ![ \\n\\t\\r\\f\\v"()/:~] .

plus: a '#' at the start of a token opens a comment that runs to the end of
the line; '(' ')' '/' are delimiters; any other non-blank character that
cannot start a token is a one-character UNEXPECTED token. In the triple
grammar there are no roles, slashes or alignments, so ':', '/' and '~' are
UNEXPECTED there.

Lines: only LF, CRLF and CR end a line.
"""

BLANKS = ' \t\r\n\v\f'
NON_NAME = BLANKS + '"()/:~'


def split_lines(text):
    """Split on LF, CRLF, CR only; returns the lines without terminators."""
    lines = []
    cur = []
    i = 0
    n = len(text)
    while i < n:
        c = text[i]
        if c == '\r':
            lines.append(''.join(cur))
            cur = []
            if i + 1 < n and text[i + 1] == '\n':
                i += 1
        elif c == '\n':
            lines.append(''.join(cur))
            cur = []
        else:
            cur.append(c)
        i += 1
    lines.append(''.join(cur))
    return lines


def _is_name(c):
    return c not in NON_NAME


def _string_end(line, i):
    """Index just after the closing quote of a string starting at i, or -1."""
    j = i + 1
    n = len(line)
    while j < n:
        c = line[j]
        if c == '"':
            return j + 1
        if c == '\\':
            # an escape consumes the next character, whatever it is
            if j + 1 >= n or line[j + 1] == '\n':
                return -1
            j += 2
        else:
            j += 1
    return -1


def _alignment_end(line, i):
    """Index just after an alignment starting at '~' (position i), or -1."""
    n = len(line)

    def digits(j):
        k = j
        while k < n and line[k] in '0123456789':
            k += 1
        return k

    def tail(j):
        # Digit+ (',' Digit+)*
        k = digits(j)
        if k == j:
            return -1
        while k < n and line[k] == ',':
            m = digits(k + 1)
            if m == k + 1:
                break
            k = m
        return k

    j = i + 1
    if j < n and (('a' <= line[j] <= 'z') or ('A' <= line[j] <= 'Z')):
        # optional prefix letter, optional '.'
        if j + 1 < n and line[j + 1] == '.':
            e = tail(j + 2)
            if e != -1:
                return e
        e = tail(j + 1)
        if e != -1:
            return e
        return -1
    return tail(j)


def lex_line(line, triple=False):
    """Return [(type, text, offset)] for one line."""
    out = []
    i = 0
    n = len(line)
    while i < n:
        c = line[i]
        if c in BLANKS:
            i += 1
            continue
        if c == '#':
            # comment to end of line (a trailing LF of the line is not part of it)
            end = n
            if end > i and line[end - 1] == '\n':
                end -= 1
            out.append(('COMMENT', line[i:end], i))
            i = n
            continue
        if c == '"':
            e = _string_end(line, i)
            if e == -1:
                out.append(('UNEXPECTED', c, i))
                i += 1
            else:
                out.append(('STRING', line[i:e], i))
                i = e
            continue
        if c == '(':
            out.append(('LPAREN', c, i))
            i += 1
            continue
        if c == ')':
            out.append(('RPAREN', c, i))
            i += 1
            continue
        if not triple:
            if c == '/':
                out.append(('SLASH', c, i))
                i += 1
                continue
            if c == ':':
                j = i + 1
                while j < n and _is_name(line[j]):
                    j += 1
                out.append(('ROLE', line[i:j], i))
                i = j
                continue
            if c == '~':
                e = _alignment_end(line, i)
                if e == -1:
                    out.append(('UNEXPECTED', c, i))
                    i += 1
                else:
                    out.append(('ALIGNMENT', line[i:e], i))
                    i = e
                continue
        if _is_name(c):
            j = i + 1
            while j < n and _is_name(line[j]):
                j += 1
            out.append(('SYMBOL', line[i:j], i))
            i = j
            continue
        out.append(('UNEXPECTED', c, i))
        i += 1
    return out


def lex(text_or_lines, triple=False):
    """Return [(type, text, lineno, offset, line)]; linenos are 1-based."""
    if isinstance(text_or_lines, str):
        lines = split_lines(text_or_lines)
    else:
        lines = list(text_or_lines)
    toks = []
    for k, line in enumerate(lines):
        for typ, text, off in lex_line(line, triple):
            toks.append((typ, text, k + 1, off, line))
    return toks
