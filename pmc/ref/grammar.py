"""Reference recognisers for PENMAN graphs and triple conjunctions.

Written from docs/notation.rst (PEG grammar), docs/serialization.rst
("Allowed Graphs": empty node, missing node label, missing edge target) and
the docstrings of parse / iterparse / parse_triples.  Works on the token list
of pmc.ref.lexer; imports nothing from penman.

    Graph    := COMMENT* Node
    Node     := '(' ( Variable ( '/' ( Concept Alignment? )? )? Relation* )? ')'
    Relation := Role Alignment? ( Node | Atom Alignment? | <nothing, only before a Role or ')'> )

Results:
    ('ok', tree, metadata, next_index)       tree = (var, [(role, target), ...])
    ('err', lineno, offset, at_eof)          first non-viable token, or the end of the
                                             last consumed token when input runs out
                                             ((0, 0) when there was no token at all)
"""


class _Fail(Exception):
    def __init__(self, lineno, offset, eof=False):
        self.pos = (lineno, offset, eof)


class _Toks:
    def __init__(self, toks, i=0):
        self.toks = toks
        self.i = i

    def peek_type(self):
        if self.i >= len(self.toks):
            self.eof()
        return self.toks[self.i][0]

    def at_end(self):
        return self.i >= len(self.toks)

    def eof(self):
        if self.i == 0:
            raise _Fail(0, 0, True)
        t = self.toks[self.i - 1]
        raise _Fail(t[2], t[3] + len(t[1]), True)

    def fail_here(self):
        t = self.toks[self.i]
        raise _Fail(t[2], t[3])

    def take(self, *types):
        if self.i >= len(self.toks):
            self.eof()
        t = self.toks[self.i]
        if t[0] not in types:
            raise _Fail(t[2], t[3])
        self.i += 1
        return t

    def take_if(self, *types):
        if self.i < len(self.toks) and self.toks[self.i][0] in types:
            self.i += 1
            return self.toks[self.i - 1]
        return None


def comment_metadata(text, md):
    """'# ::key value ::key2 value2' -> md; text before the first '::' is ignored."""
    text = text.rstrip()
    parts = text.split('::')
    for part in parts[1:]:
        key, _, value = part.partition(' ')
        md[key] = value.rstrip()


def metadata_is_specified(comments):
    """The '::' segmentation is only unambiguous without ':::' and duplicate keys."""
    keys = []
    for c in comments:
        if ':::' in c:
            return False
        for part in c.rstrip().split('::')[1:]:
            keys.append(part.partition(' ')[0])
    return len(keys) == len(set(keys))


def _graph(tk):
    md = {}
    comments = []
    while tk.peek_type() == 'COMMENT':
        c = tk.take('COMMENT')[1]
        comments.append(c)
        comment_metadata(c, md)
    node = _node(tk)
    return node, md, comments


def _node(tk):
    tk.take('LPAREN')
    var = None
    edges = []
    if tk.peek_type() != 'RPAREN':
        var = tk.take('SYMBOL')[1]
        if tk.peek_type() == 'SLASH':
            tk.take('SLASH')
            concept = None
            if tk.peek_type() in ('SYMBOL', 'STRING'):
                concept = tk.take('SYMBOL', 'STRING')[1]
                if tk.peek_type() == 'ALIGNMENT':
                    concept += tk.take('ALIGNMENT')[1]
            edges.append(('/', concept))
        while tk.peek_type() != 'RPAREN':
            edges.append(_edge(tk))
    tk.take('RPAREN')
    return (var, edges)


def _edge(tk):
    role = tk.take('ROLE')[1]
    if tk.peek_type() == 'ALIGNMENT':
        role += tk.take('ALIGNMENT')[1]
    target = None
    nxt = tk.peek_type()
    if nxt in ('SYMBOL', 'STRING'):
        target = tk.take('SYMBOL', 'STRING')[1]
        if tk.peek_type() == 'ALIGNMENT':
            target += tk.take('ALIGNMENT')[1]
    elif nxt == 'LPAREN':
        target = _node(tk)
    elif nxt not in ('ROLE', 'RPAREN'):
        tk.fail_here()
    return (role, target)


def parse_one(toks, start=0):
    tk = _Toks(toks, start)
    try:
        node, md, comments = _graph(tk)
    except _Fail as f:
        return ('err',) + f.pos
    return ('ok', node, md, tk.i, comments)


def parse_many(toks):
    """iterparse: graphs while the next token is a comment or '('; stops silently otherwise."""
    out = []
    i = 0
    while i < len(toks) and toks[i][0] in ('COMMENT', 'LPAREN'):
        r = parse_one(toks, i)
        if r[0] == 'err':
            # an error inside the k-th graph: the graphs before it were already delivered
            return out, r
        out.append(r)
        i = r[3]
    return out, None


def depth_of(toks):
    d = m = 0
    for t in toks:
        if t[0] == 'LPAREN':
            d += 1
            m = max(m, d)
        elif t[0] == 'RPAREN':
            d = max(0, d - 1)
    return m


# --------------------------------------------------------------------------
# triple conjunctions:  role(source, target) ^ role(source, target) ...

def parse_triples(toks):
    """Return ('ok', [(source, role, target)]) or ('err', lineno, offset)."""
    tk = _Toks(toks)
    triples = []
    attached = False
    try:
        while True:
            role = tk.take('SYMBOL')[1]
            if attached and role.startswith('^'):
                role = role[1:]
            if not role.startswith(':'):
                role = ':' + role
            tk.take('LPAREN')
            sym = tk.take('SYMBOL')[1]
            source, comma, rest = sym.partition(',')
            target = None
            if rest:                       # role(a,b)
                target = rest
            elif comma:                    # role(a, b)  role(a,)
                t = tk.take_if('SYMBOL', 'STRING')
                if t:
                    target = t[1]
            else:                          # role(a , b) role(a ,b) role(a ,) role(a)
                t = tk.take_if('SYMBOL')
                if t is None:
                    pass
                elif t[1] == ',':
                    t2 = tk.take_if('SYMBOL', 'STRING')
                    if t2:
                        target = t2[1]
                elif t[1].startswith(','):
                    target = t[1][1:]
                else:                      # role(a b): the comma is missing
                    tk.i -= 1
                    tk.fail_here()
            tk.take('RPAREN')
            triples.append((source, role, target))
            if tk.at_end():
                break
            nxt = tk.toks[tk.i]
            if nxt[0] != 'SYMBOL' or not nxt[1].startswith('^'):
                break                      # anything else ends the conjunction
            if nxt[1] == '^':
                tk.i += 1
                attached = False
            else:
                attached = True
    except _Fail as f:
        return ('err',) + f.pos
    return ('ok', triples)
