"""Reference interpretation of a tree (docs/notation.rst, docs/structures.rst,
docs/serialization.rst) and graph-content normal form.

interpret(tree, refmodel) returns a dict with
    top, triples (ordered), variables, role_aln {triple: text}, tgt_aln {triple: text},
    rows: one record per triple, in order:
        {'triple', 'context' (variable of the node that wrote it), 'pushed'
         (variable of the nested node the branch opened, or None), 'inverted'
         (written from its target's node with an inverted role), 'closes' (number of
         nodes that end after this triple)}
Nothing is imported from penman.
"""


def is_atomic(x):
    return x is None or isinstance(x, (str, int, float))


def tree_vars(node):
    """Variables of all nodes of the tree (the empty node has none)."""
    var, branches = node
    out = [] if var is None else [var]
    for _, tgt in branches:
        if not is_atomic(tgt):
            out.extend(tree_vars(tgt))
    return out


def split_role(role):
    """':ARG0~e.1' -> (':ARG0', '~e.1');  '/' -> (':instance', '')"""
    if role == '/':
        return ':instance', ''
    i = role.find('~')
    if i < 0:
        return role, ''
    return role[:i], role[i:]


def split_atom(target):
    """'b~e.3' -> ('b', '~e.3'); a '~' inside a quoted string is content."""
    if not isinstance(target, str) or '~' not in target:
        return target, ''
    if target.startswith('"'):
        j = target.rfind('"')
        if j + 1 < len(target) and target[j + 1] == '~':
            return target[:j + 1], target[j + 1:]
        return target, ''
    i = target.find('~')
    return target[:i], target[i:]


def interpret(node, model):
    variables = set(tree_vars(node))
    rows = []
    _node(node, variables, model, rows)
    triples = [r['triple'] for r in rows]
    role_aln, tgt_aln = {}, {}
    seen = set()
    dup = set()
    for r in rows:
        t = r['triple']
        if t in seen:
            dup.add(t)
            continue
        seen.add(t)
        if r['role_aln']:
            role_aln[t] = r['role_aln']
        if r['tgt_aln']:
            tgt_aln[t] = r['tgt_aln']
    return {'top': node[0], 'triples': triples, 'variables': variables, 'rows': rows,
            'role_aln': role_aln, 'tgt_aln': tgt_aln, 'duplicates': dup}


def _node(node, variables, model, rows):
    var, branches = node
    start = len(rows)
    has_concept = any(split_role(role)[0] == ':instance' for role, _ in branches)
    if not has_concept:
        rows.append({'triple': (var, ':instance', None), 'context': var, 'pushed': None, 'inverted': False,
                     'role_aln': '', 'tgt_aln': '', 'closes': 0})
    for role, target in branches:
        role, ra = split_role(role)
        if is_atomic(target):
            tgt, ta = split_atom(target)
            triple = (var, role, tgt)
            inverted = False
            if model.is_inverted(role) and tgt in variables and not model.noop:
                triple = model.invert(triple)
                inverted = True
            rows.append({'triple': triple, 'context': var, 'pushed': None, 'inverted': inverted,
                         'role_aln': ra, 'tgt_aln': ta, 'closes': 0})
        else:
            child = target[0]
            triple = (var, role, child)
            inverted = False
            if model.is_inverted(role) and not model.noop:
                triple = model.invert(triple)
                inverted = True
            rows.append({'triple': triple, 'context': var, 'pushed': child, 'inverted': inverted,
                         'role_aln': ra, 'tgt_aln': '', 'closes': 0})
            _node(target, variables, model, rows)
            rows[-1]['closes'] += 1
    return start


# ------------------------------------------------------------------ content

def norm_const(x):
    if x is None or x == '':
        return None
    return str(x)


def content(triples, top, model, variables=None, deinvert=True):
    """Graph content: top, variable set, multiset of triples after ONE deinversion
    (deinvert=False: the triples as they are - used for decoded graphs, which must
    already be in deinverted form).

    variables: the set of node variables (sources, plus the top); a triple is an
    edge when its role is not the concept role and its target is a variable.
    """
    if variables is None:
        variables = {s for s, _, _ in triples}
        if top is not None:
            variables.add(top)
    out = []
    for s, r, t in triples:
        if not r.startswith(':'):
            r = ':' + r
        if r != ':instance' and t in variables:
            if deinvert and model.is_inverted(r) and not model.noop:
                s, r, t = t, model.invert_role(r), s
            out.append((s, r, t, 'edge'))
        else:
            out.append((s, r, norm_const(t), 'inst' if r == ':instance' else 'attr'))
    out.sort(key=repr)
    return {'top': top, 'variables': sorted(variables, key=repr), 'triples': out}


def weakly_connected(triples, top):
    """Variables reachable from top over edges in either direction (instance triples are not edges)."""
    variables = {s for s, _, _ in triples}
    adj = {v: set() for v in variables}
    for s, r, t in triples:
        if r != ':instance' and t in variables:
            adj[s].add(t)
            adj[t].add(s)
    if top not in adj:
        return set()
    seen = {top}
    todo = [top]
    while todo:
        v = todo.pop()
        for w in adj[v]:
            if w not in seen:
                seen.add(w)
                todo.append(w)
    return seen


def well_formed_tree(node, model):
    """C02's precondition: each variable defined once, denoted triples pairwise
    distinct, roles in canonical inversion form, no inverted self-loop."""
    vs = tree_vars(node)
    if len(vs) != len(set(vs)):
        return False
    if not _roles_canonical(node, model):
        return False
    it = interpret(node, model)
    ts = it['triples']
    if len(ts) != len(set(ts)):
        return False
    for r in it['rows']:
        s, _, t = r['triple']
        if r['inverted'] and s == t:
            return False
    return True


def _roles_canonical(node, model):
    var, branches = node
    for role, tgt in branches:
        role, _ = split_role(role)
        if role != ':instance' and model.canonical_inversion(role) != role:
            return False
        if not is_atomic(tgt):
            if not _roles_canonical(tgt, model):
                return False
    return True
