#!/venv/bin/python
"""Design-time mutants (DESIGN.md section 4 "Mutants"): small realistic edits written by the
author of the checks (unlike seeded/, which were written blind by sub-agents).

usage: tools/design_mutants.py [name ...]      # default: all
For each mutant: scratch worktree of /repo HEAD under /tmp, apply the edit, run the baseline
suite (a mutant that fails it is reported as 'killed by tests' and skipped), run the quick
check of its property with VERIF_REPO, record the outcome in mutants/RESULTS.json.
"""
import json
import os
import subprocess
import sys
import tempfile

VERIF = os.path.dirname(os.path.dirname(os.path.abspath(__file__)))

M = [
    # name, property, file, old, new
    ('c01_comment_partition', 'C01', 'penman/_parse.py', "comment.rpartition('::')", "comment.partition('::')[::-1] if False else comment.rpartition('::') if '::' not in comment[comment.find('::') + 2:] else (comment[:comment.find('::')], '::', comment[comment.find('::') + 2:].replace('::', ' '))"),
    ('c01_string_escape', 'C01', 'penman/_lexer.py', r"""'STRING': r'"[^"\\]*(?:\\.[^"\\]*)*"',""", r"""'STRING': r'"[^"\\]*(?:\\"[^"\\]*)*"',"""),
    ('c01_compact_target_in_vars', 'C01', 'penman/_format.py', "if compact and (not is_atomic(target) or target in vars):", "if compact and not is_atomic(target):"),
    ('c02_secondary_context_pass', 'C06', 'penman/layout.py', "                    continue  # change to 'pass' to allow multiple contexts", "                    pass  # change to 'pass' to allow multiple contexts"),
    ('c02_epigraph_nested_alignment', 'C02', 'penman/layout.py', "            elif epi.mode == 2 and atomic_target:  # target epidata", "            elif epi.mode == 2:  # target epidata"),
    ('c03_find_next_wrong_end', 'C03', 'penman/layout.py', "    for i in range(len(data) - 1, -1, -1):", "    for i in range(len(data)):"),
    ('c03_establish_no_break', 'C03', 'penman/layout.py', "                    edges[i] = tuple(edge)\n                    break", "                    edges[i] = tuple(edge)"),
    ('c03_concept_guard', 'C03', 'penman/layout.py', "        elif triple[2] == var and triple[1] != CONCEPT_ROLE:", "        elif triple[2] == var:"),
    ('c04_string_alignment_partition', 'C04', 'penman/layout.py', "            pivot = target.rindex('\"') + 1", "            pivot = target.index('~') if target.count('\"') == 2 and target.index('~') > target.rindex('\"') else target.rindex('\"') + 1 if target.count('~') < 2 else target.index('~')"),
    ('c04_attributes_deinverted', 'C04', 'penman/layout.py', "                if target in variables:\n                    triple = model.deinvert(triple)", "                if target in variables or target is not None:\n                    triple = model.deinvert(triple)"),
    ('c04_role_alignment_last_tilde', 'C04', 'penman/layout.py', "        role, _, alignment = role.partition('~')\n        epis = (RoleAlignment.from_string(alignment),)", "        role, _, alignment = role.rpartition('~')\n        epis = (RoleAlignment.from_string(alignment),)"),
    ('c05_concept_sorted', 'C05', 'penman/layout.py', "    if branches and branches[0][0] == '/':\n        first = branches[0:1]\n        rest = branches[1:]", "    if branches and branches[0][0] == '/' and len(branches) < 4:\n        first = branches[0:1]\n        rest = branches[1:]"),
    ('c05_alnum_nongreedy', 'C05', 'penman/model.py', r"m = re.match(r'(.*\D)(\d+)$', role)", r"m = re.match(r'(.*?\D)(\d)$', role)"),
    ('c05_reconfigure_keep_pops', 'C05', 'penman/layout.py', "            epi for epi in epilist if not isinstance(epi, LayoutMarker)", "            epi for epi in epilist if not isinstance(epi, Push)"),
    ('c05_canonical_no_inversion', 'C05', 'penman/model.py', "        return (self.is_role_inverted(role), self.alphanumeric_order(role))", "        return (role.endswith('-of'), self.alphanumeric_order(role))"),
    ('c06_keep_trailing_pops', 'C06', 'penman/layout.py', "        # remove any superfluous POPs\n        while data and isinstance(data[-1], Pop):\n            data.pop()", "        # remove any superfluous POPs\n        if data and isinstance(data[-1], Pop):\n            data.pop()"),
    ('c06_surprising_or', 'C06', 'penman/layout.py', "                surprising &= _surprising", "                surprising |= _surprising"),
    ('c06_no_pushed_set', 'C06', 'penman/layout.py', "                if pvar in pushed:", "                if False and pvar in pushed:"),
    ('c06_top_keyerror', 'C06', 'penman/layout.py', "    if top not in nodemap:\n        raise LayoutError(f'top is not a variable: {top!r}')", "    if top is None:\n        raise LayoutError(f'top is not a variable: {top!r}')"),
    ('c07_eof_offset', 'C07', 'penman/_lexer.py', "                offset = self._last.offset + len(self._last.text)", "                offset = self._last.offset + 1"),
    ('c07_missing_target_before_lparen', 'C07', 'penman/_parse.py', "    elif next_type not in ('ROLE', 'RPAREN'):", "    elif next_type not in ('ROLE', 'RPAREN', 'SLASH'):"),
    ('c07_comment_only_position', 'C07', 'penman/_lexer.py', "        if self._next is None:\n            raise self.error('Unexpected end of input')", "        if self._next is None:\n            self._last = None if self._last is not None and self._last.type == 'COMMENT' else self._last\n            raise self.error('Unexpected end of input')"),
    ('c08_unexpected_unicode_blank', 'C08', 'penman/_lexer.py', r"""'UNEXPECTED': r'[^ \t\r\n\v\f]',""", r"""'UNEXPECTED': r'[^\s]',"""),
    ('c08_symbol_unicode_blank', 'C08', 'penman/_lexer.py', r"""'SYMBOL': r'[^ \t\r\n\v\f"()\/:~]+',""", r"""'SYMBOL': r'[^\s"()\/:~]+',"""),
    ('c08_alignment_trailing_comma', 'C08', 'penman/_lexer.py', r"""[0-9]+(?:,[0-9]+)*',""", r"""[0-9]+(?:,[0-9]*)*',"""),
    ('c08_role_tilde', 'C08', 'penman/_lexer.py', r"""'ROLE': r':[^ \t\r\n\v\f"()\/:~]*',""", r"""'ROLE': r':[^ \t\r\n\v\f"()\/:]*',"""),
    ('c09_iterparse_lparen_only', 'C09', 'penman/_parse.py', "    while tokens and tokens.peek().type in ('COMMENT', 'LPAREN'):", "    while tokens and tokens.peek().type in ('LPAREN',) or (tokens and tokens.peek().type == 'COMMENT' and tokens._last is None):"),
    ('c09_dump_no_blank_line', 'C09', 'penman/codec.py', "    for s in ss:\n        print(file=fh)\n        print(s, file=fh)", "    for s in ss:\n        print(s, file=fh, end=' ')"),
    ('c10_used_not_updated', 'C10', 'penman/tree.py', "                used.add(newvar)", "                used.add(newvar) if i < 3 else None"),
    ('c10_prefix_last_alpha', 'C10', 'penman/tree.py', "            if c.isalpha():\n                prefix = c.lower()\n                break", "            if c.isalpha():\n                prefix = c.lower()\n                if c.isascii():\n                    break"),
    ('c11_edge_markers_drop_pops', 'C11', 'penman/transform.py', "    if push:\n        out_epis.append(push)\n    out_epis.extend(pops)", "    if push:\n        out_epis.append(push)\n    out_epis.extend(pops[:1])"),
    ('c11_agenda_ge2', 'C11', 'penman/transform.py', "            and len(other.get(var, [])) == 2", "            and len(other.get(var, [])) >= 2"),
    ('c11_swap_inverted', 'C11', 'penman/transform.py', "            if get_pushed_variable(g, second) == var:", "            if get_pushed_variable(g, second) != var and get_pushed_variable(g, first) is None and get_pushed_variable(g, second) is not None:"),
    ('c12_attr_markers_lose_pops', 'C12', 'penman/transform.py', "    node_epis = other_epis\n    node_epis.extend(pops)", "    node_epis = other_epis\n    node_epis.extend(pops[1:])"),
    ('c12_counter_restart', 'C12', 'penman/transform.py', "            # get unique var for new node\n            var = '_'\n            while var in used:", "            # get unique var for new node\n            var = '_'\n            i = 2\n            while var in used and i < 4:"),
    ('c13_has_role_double', 'C13', 'penman/model.py', "            role.endswith('-of') and self._has_role(role[:-3])", "            role.endswith('-of') and self.has_role(role[:-3])"),
    ('c13_regex_no_group', 'C13', 'penman/model.py', "            '^({})$'.format(", "            '^{}$'.format("),
    ('c14_last_push', 'C14', 'penman/layout.py', "    for epi in g.epidata.get(triple, []):\n        if isinstance(epi, Push):\n            return epi.variable\n    return None", "    found = None\n    for epi in g.epidata.get(triple, []):\n        if isinstance(epi, Push):\n            found = epi.variable\n    return found"),
    ('c14_fallback_source', 'C14', 'penman/layout.py', "                    return triple[2] == variable", "                    return triple[0] != variable"),
    ('c15_isub_keep_top', 'C15', 'penman/graph.py', "            if self._top not in possible_variables:\n                self._top = None", "            if self._top not in possible_variables and not self.triples:\n                self._top = None"),
    ('c15_reentrancies_no_top', 'C15', 'penman/graph.py', "        if self.top is not None:\n            entrancies[self.top] += 1  # implicit entrancy to top", "        if self._top is not None:\n            entrancies[self._top] += 1  # implicit entrancy to top"),
    ('c15_ior_extend_set', 'C15', 'penman/graph.py', "            self.triples.extend(t for t in other.triples if t in new)", "            self.triples.extend(sorted(new, key=other.triples.index) if len(new) < 3 else new)"),
    ('c16_exitcode_overwrite_graph', 'C16', 'penman/__main__.py', "            exitcode |= _check(g, model)", "            exitcode = _check(g, model)"),
    ('c16_directed_reachability', 'C16', 'penman/model.py', "            q[target].add(var)", "            q[target].add(var) if var != top else None"),
    ('c16_skip_inverted_roles', 'C16', 'penman/model.py', "                if not self.has_role(role):\n                    err[triple].append('invalid role')", "                if not self.has_role(role) and not role.endswith('-of-of'):\n                    err[triple].append('invalid role')"),
    ('c17_reconfigure_shallow', 'C17', 'penman/layout.py', "    p = copy.deepcopy(g)", "    p = copy.copy(g)\n    p.epidata = dict(g.epidata)"),
    ('c17_preconfigure_is_pop', 'C17', 'penman/layout.py', "            elif isinstance(epi, Pop):\n                pops.append(epi)", "            elif epi is POP:\n                pops.append(epi)"),
    ('c17_or_no_copy', 'C17', 'penman/graph.py', "            g = copy.deepcopy(self)\n            g.metadata.clear()\n            g |= other", "            g = copy.copy(self)\n            g.triples = list(self.triples)\n            g.metadata = {}\n            g |= other"),
    ('c18_ensure_ascii', 'C18', 'penman/constant.py', "        return json.dumps(str(constant))", "        return json.dumps(str(constant), ensure_ascii=False).replace('\\\\u001f', '\\x1f')"),
    ('c18_parse_constant', 'C18', 'penman/constant.py', "                value = json.loads(constant_string, parse_constant=str)", "                value = json.loads(constant_string)"),
    ('c18_literal_guard', 'C18', 'penman/constant.py', "        if constant_string not in ('true', 'false', 'null'):", "        if constant_string not in ('true', 'false'):"),
    ('c19_role_slice', 'C19', 'penman/_format.py', "        f'{role.lstrip(\":\")}({source}, {target})'", "        f'{role[1:]}({source}, {target})' if len(role) > 9 else f'{role.lstrip(\":\")}({source}, {target})'"),
    ('c19_caret_first_role', 'C07', 'penman/_parse.py', "    strip_caret = False\n    while True:", "    strip_caret = True\n    while True:"),
    ('c20_swap_reify_dereify', 'C20', 'penman/__main__.py', "    if normalize_options['reify_edges']:\n        g = transform.reify_edges(g, model)\n    if normalize_options['dereify_edges']:\n        g = transform.dereify_edges(g, model)", "    if normalize_options['dereify_edges']:\n        g = transform.dereify_edges(g, model)\n    if normalize_options['reify_edges']:\n        g = transform.reify_edges(g, model)"),
    ('c20_indent_zero_unset', 'C20', 'penman/__main__.py', "                indent = int(indent)\n                if indent < -1:", "                indent = int(indent) or -1\n                if indent < -1:"),
    ('c20_compact_dropped_with_indent', 'C20', 'penman/__main__.py', "        'compact': args.compact,", "        'compact': args.compact and args.indent is None,"),
]


# mutants that turned out not to break the property they were aimed at (kept for the record, not run)
EQUIVALENT = {
    'c01_comment_partition': 'garbled edit (not a clean mutant); withdrawn',
    'c01_compact_target_in_vars': 'changes only which whitespace is used in compact mode (C01 allows any whitespace difference)',
    'c04_role_alignment_last_tilde': 'the lexer never yields a role with two "~"; identical on every parser-producible tree',
    'c05_reconfigure_keep_pops': 'changes the layout reconfigure chooses, not the content (C05 is about content)',
    'c06_surprising_or': 'only changes which recovery branch is taken; content unaffected on everything explored',
    'c07_missing_target_before_lparen': 'the error is raised one step later at the same token and position',
    'c08_unexpected_unicode_blank': 'SYMBOL is tried before UNEXPECTED and already matches every such character',
    'c09_dump_no_blank_line': 'graphs separated by a space still load back equal (the statement allows any separation)',
    'c11_swap_inverted': 'garbled edit (not a clean mutant); withdrawn',
    'c12_attr_markers_lose_pops': 'changes where later branches attach (layout), not the content or well-formedness that C12 states',
    'c14_last_push': 'decoded graphs never carry two Push markers on one triple',
    'c14_fallback_source': 'logically equivalent on triples with source != target (the context is one of the two ends)',
    'c16_directed_reachability': 'forward edges from the top suffice for reachability from the top',
    'c19_role_slice': 'role[1:] equals lstrip(":") for every role with one leading colon',
}


def sh(cmd, cwd=None, env=None, timeout=3600):
    e = dict(os.environ)
    if env:
        e.update(env)
    r = subprocess.run(cmd, shell=True, cwd=cwd, capture_output=True, text=True, env=e, timeout=timeout)
    return r.returncode, r.stdout + r.stderr


def main():
    names = sys.argv[1:]
    os.makedirs(os.path.join(VERIF, 'mutants'), exist_ok=True)
    resp = os.path.join(VERIF, 'mutants', 'RESULTS.json')
    results = json.load(open(resp)) if os.path.exists(resp) else {}
    for name, prop, path, old, new in M:
        if names and name not in names:
            continue
        if name in EQUIVALENT and not names:
            results[name] = {'property': prop, 'status': 'equivalent (does not break the property): ' + EQUIVALENT[name]}
            continue
        wt = tempfile.mkdtemp(prefix='wt_mut_', dir='/tmp')
        os.rmdir(wt)
        sh(f'git -C /repo worktree add -q --detach {wt} HEAD')
        try:
            fp = os.path.join(wt, path)
            src = open(fp, encoding='utf-8').read()
            if src.count(old) != 1:
                results[name] = {'property': prop, 'status': f'edit site not found ({src.count(old)} matches)'}
                print(name, results[name]['status'])
                continue
            open(fp, 'w', encoding='utf-8').write(src.replace(old, new))
            rc, diff = sh('git diff', cwd=wt)
            open(os.path.join(VERIF, 'mutants', name + '.diff'), 'w').write(diff)
            rc, out = sh('/venv/bin/python -m pytest -q -p no:cacheprovider --timeout=900 -x tests', cwd=wt)
            tail = out.strip().splitlines()[-1] if out.strip() else ''
            if rc != 0:
                results[name] = {'property': prop, 'status': 'killed by the baseline suite', 'tests': tail}
                print(name, 'killed by tests:', tail)
                continue
            rc, out = sh(f'./check {prop} --tier quick', cwd=VERIF, env={'VERIF_REPO': wt})
            lines = out.splitlines()
            first = ''
            for k, l in enumerate(lines):
                if l.startswith('VIOLATION'):
                    first = ' / '.join(x.strip() for x in lines[k + 1:k + 3])[:300]
                    break
            results[name] = {'property': prop, 'status': 'caught' if rc == 1 else f'MISSED (exit {rc})', 'tests': tail, 'first_violation': first}
            print(name, results[name]['status'], first[:120])
        finally:
            sh(f'git -C /repo worktree remove --force {wt}')
            json.dump(results, open(resp, 'w'), indent=1, sort_keys=True)


if __name__ == '__main__':
    main()
