#!/venv/bin/python
"""Confirm and evaluate seeded property-breaking changes.

usage: tools/seed_eval.py <src-dir-with patch.diff,demo.py,meta.json> <name> [--props C01,C02] [--tier quick]

Steps (all in a scratch worktree of /repo HEAD under /tmp, removed afterwards):
  1. demo.py on the clean tree must PASS (exit 0)
  2. patch applies; the unedited baseline suite still passes
  3. demo.py on the patched tree must FAIL (exit != 0)
  4. ./check <prop> with VERIF_REPO=<worktree> for each requested property: VIOLATION expected
The change is copied to /verif/seeded/<name>/ with an augmented meta.json only if 1-3 hold.
"""
import json
import os
import shutil
import subprocess
import sys
import tempfile

VERIF = os.path.dirname(os.path.dirname(os.path.abspath(__file__)))


def sh(cmd, cwd=None, timeout=1800, env=None):
    e = dict(os.environ)
    if env:
        e.update(env)
    r = subprocess.run(cmd, shell=True, cwd=cwd, capture_output=True, text=True, timeout=timeout, env=e)
    return r.returncode, r.stdout + r.stderr


def main():
    src, name = sys.argv[1], sys.argv[2]
    props = None
    tier = 'quick'
    for i, a in enumerate(sys.argv):
        if a == '--props':
            props = sys.argv[i + 1].split(',')
        if a == '--tier':
            tier = sys.argv[i + 1]
    meta = json.load(open(os.path.join(src, 'meta.json')))
    if props is None:
        props = [meta['property']]
    wt = tempfile.mkdtemp(prefix='wt_seed_', dir='/tmp')
    os.rmdir(wt)
    rc, out = sh(f'git -C /repo worktree add -q --detach {wt} HEAD')
    assert rc == 0, out
    res = {'name': name, 'property': meta['property']}
    try:
        demo = os.path.abspath(os.path.join(src, 'demo.py'))
        rc, out = sh(f'/venv/bin/python {demo}', cwd=wt, timeout=300)
        res['demo_clean_rc'] = rc
        rc, out = sh(f'git apply {os.path.abspath(os.path.join(src, "patch.diff"))}', cwd=wt)
        res['applies'] = rc == 0
        if rc != 0:
            res['apply_error'] = out[-500:]
        else:
            rc, out = sh('/venv/bin/python -m pytest -q -p no:cacheprovider --timeout=900 tests', cwd=wt)
            res['tests_rc'] = rc
            res['tests_tail'] = out.strip().splitlines()[-1] if out.strip() else ''
            rc, out = sh(f'/venv/bin/python {demo}', cwd=wt, timeout=300)
            res['demo_patched_rc'] = rc
            res['demo_patched_tail'] = out.strip()[-300:]
            res['checks'] = {}
            for p in props:
                rc, out = sh(f'./check {p} --tier {tier}', cwd=VERIF, env={'VERIF_REPO': wt}, timeout=3600)
                viol = [l for l in out.splitlines() if l.startswith('VIOLATION')]
                first = ''
                lines = out.splitlines()
                for k, l in enumerate(lines):
                    if l.startswith('VIOLATION'):
                        first = ' / '.join(x.strip() for x in lines[k + 1:k + 3])[:400]
                        break
                res['checks'][p] = {'rc': rc, 'violations_printed': len(viol), 'first': first,
                                    'head': lines[0] if lines else ''}
    finally:
        sh(f'git -C /repo worktree remove --force {wt}')
    ok = res.get('demo_clean_rc') == 0 and res.get('applies') and res.get('tests_rc') == 0 and res.get('demo_patched_rc', 0) != 0
    res['confirmed'] = bool(ok)
    if ok:
        dst = os.path.join(VERIF, 'seeded', name)
        os.makedirs(dst, exist_ok=True)
        shutil.copy(os.path.join(src, 'patch.diff'), dst)
        shutil.copy(os.path.join(src, 'demo.py'), dst)
        meta2 = dict(meta)
        meta2['breaks_property'] = meta['property']
        meta2['confirmed'] = {
            'repo_head': sh('git -C /repo rev-parse --short HEAD')[1].strip(),
            'demo_on_clean_tree': 'PASS (exit 0)',
            'baseline_suite_with_patch': res['tests_tail'],
            'demo_with_patch': f'FAIL (exit {res["demo_patched_rc"]})',
            'how': 'tools/seed_eval.py: scratch worktree of /repo HEAD under /tmp, git apply patch.diff, pytest tests, demo.py, ./check with VERIF_REPO=<worktree>; worktree removed',
        }
        meta2['detected_by'] = {p: {'tier': tier, 'exit': c['rc'], 'first_violation': c['first']} for p, c in res.get('checks', {}).items()}
        json.dump(meta2, open(os.path.join(dst, 'meta.json'), 'w'), indent=1)
    print(json.dumps(res, indent=1))


if __name__ == '__main__':
    main()
