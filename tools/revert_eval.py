#!/venv/bin/python
"""Show that every `fixed:` entry of KNOWN_FINDINGS.txt is still guarded: revert the repair in a scratch
worktree of /repo HEAD (outside /repo and /verif, removed afterwards), run the quick check of the property
named in the entry with VERIF_REPO pointing at it, and expect a VIOLATION.

usage: tools/revert_eval.py [--only C05,C12]      -> mutants/REVERTS.json
A revert that does not apply cleanly on HEAD (a later repair touched the same lines) is recorded as such.
"""
import json
import os
import re
import subprocess
import sys
import tempfile

VERIF = os.path.dirname(os.path.dirname(os.path.abspath(__file__)))


def sh(cmd, cwd=None, timeout=3600, env=None):
    e = dict(os.environ)
    if env:
        e.update(env)
    r = subprocess.run(cmd, shell=True, cwd=cwd, capture_output=True, text=True, timeout=timeout, env=e)
    return r.returncode, r.stdout + r.stderr


def entries():
    for line in open(os.path.join(VERIF, 'KNOWN_FINDINGS.txt'), encoding='utf-8'):
        m = re.match(r'fixed: property=(C\d\d) ([0-9a-f]{7,}) (.*)', line)
        if m:
            yield m.group(1), m.group(2), m.group(3).strip()


def main():
    only = None
    if '--only' in sys.argv:
        only = set(sys.argv[sys.argv.index('--only') + 1].split(','))
    out_path = os.path.join(VERIF, 'mutants', 'REVERTS.json')
    res = json.load(open(out_path)) if os.path.exists(out_path) else {}
    for prop, commit, what in entries():
        if only and prop not in only:
            continue
        key = f'{prop} {commit}'
        wt = tempfile.mkdtemp(prefix='wt_rev_', dir='/tmp')
        os.rmdir(wt)
        rc, out = sh(f'git -C /repo worktree add -q --detach {wt} HEAD')
        assert rc == 0, out
        r = {'property': prop, 'commit': commit, 'what': what[:200]}
        try:
            rc, out = sh(f'git revert --no-commit {commit}', cwd=wt)
            if rc != 0:
                r['status'] = 'revert does not apply cleanly on HEAD (later repairs touch the same lines)'
            else:
                rc, out = sh('/venv/bin/python -m pytest -q -p no:cacheprovider --timeout=900 tests', cwd=wt)
                r['tests'] = out.strip().splitlines()[-1] if out.strip() else ''
                rc, out = sh(f'./check {prop} --tier quick', cwd=VERIF, env={'VERIF_REPO': wt})
                lines = out.splitlines()
                first = ''
                for k, l in enumerate(lines):
                    if l.startswith('VIOLATION'):
                        first = ' / '.join(x.strip() for x in lines[k + 1:k + 2])[:300]
                        break
                r['check_exit'] = rc
                r['first_violation'] = first
                r['status'] = 'violation reported again' if rc == 1 else f'NOT reported (exit {rc})'
        finally:
            sh(f'git -C /repo worktree remove --force {wt}')
        res[key] = r
        print(key, r['status'], '|', r.get('first_violation', '')[:120], flush=True)
        with open(out_path, 'w', encoding='utf-8') as fh:
            json.dump(res, fh, indent=1, sort_keys=True)


if __name__ == '__main__':
    main()
