#!/venv/bin/python
"""Refresh the generated parts of DESIGN.md:
   - the "As built" paragraph of every property (hand-written notes below + numbers from evidence/*.json)
   - the seeded-change table of section 7 (from seeded/*/meta.json)
Markers: <!-- ASBUILT:Cnn --> ... <!-- /ASBUILT:Cnn -->  and  <!-- SEEDED --> ... <!-- /SEEDED -->
"""
import glob
import json
import os
import re

VERIF = os.path.dirname(os.path.dirname(os.path.abspath(__file__)))

NOTES = {
    'C01': 'Sub-checks `trees` (all decorations of every shape, metadata variant rotating, 10 option pairs on the wide family / 4 on the larger ones in quick), `meta` (7 metadata variants x 10 options on a small family) and `fixed` (every accepted string, accepted token sequence and a family of multi-key comment lines: fixed point of parse-then-format). The wide alphabet was extended with `""`, a string starting with an escape and an aligned empty-string concept after a seeded change to the STRING pattern was missed; symbols containing `#` (`k#1`, `x#y`) after a second-wave change that cut symbols at `#`. Wave 4: a string atom and a metadata value containing a TAB / NBSP. The `meta` family also goes through `PENMANCodec.format/parse`, `penman.iterparse` and `PENMANCodec.iterparse`.',
    'C02': 'As designed; the precondition (well-formedness under the model, canonical inversion form) is decided by `pmc.ref.interp.well_formed_tree`, the oracle is tree equality plus `encode(decode(s))` text equality. Models: DEFAULT, NOOP, AMR, MINI and the 16 role tables of the TINY family. The shared alphabets now contain a role alignment equal to a target alignment (`:r~e.3 a~e.3`, `:r~1 "s"~1`) and a constant spelled like a later variable (`c`) - second-wave changes (de-duplicated markers, a variable set leaking between decodes) needed them. Wave 4: the text-level round trip carries three metadata keys that are not in alphabetical order, written by hand (not by the formatter).',
    'C03': 'Sub-checks `plain` (GRAPH(V,E) over four pools, all permutations / adjacent-2, every top) and `marked` (decoded trees, permuted, every top). The decoded side is compared *without* deinversion (a decoded graph must already be deinverted) - the first version normalised both sides and missed a seeded change that left forward inverted references un-deinverted. NOOP is not a model of this property (it cannot restore a triple written from its target side). Every `marked` case is also run on a `copy.deepcopy` of the graph (markers equal to, but not identical with, the POP singleton - what pickling, `|` and `-` produce). Wave 4: `plain` graphs whose requested top is the source of their first triple are also encoded with no top at all (implicit top).',
    'C04': 'As designed, plus an end-to-end `text` sub-check (format a tree containing U+2028/U+0085/VT/FF/FS inside symbols, roles and strings, decode the text, compare with the reference reading of the *text*) added after a seeded `str.splitlines` regression was invisible to the tree-level check. Wave 4: an `entry` sub-check decodes every tree of a model-role family through eight public entry points (decode, codec method, loads, iterdecode x2, load from a stream / an open file / a file name) and compares each with the reference reading.',
    'C05': 'Explicit-state search: R(key), A(key, attributes_first), T(top) from the decoding and the marker-less twin of every well-formed tree; 8 keys incl. the tool\'s `inverted-last` and three scripted random sources; every rearranged branch list is compared with the stable reference key order. Second-wave additions: a deep-copied initial variant, concept-less nodes in the depth-2 family, and "priming" calls of the other models\' sort keys on the same roles before each case (a class-level memo shared between models was invisible otherwise). Wave 4: two more initial variants - a hand-built graph with an implicit top (this found F25) and a graph that states one attribute twice (both copies are content).',
    'C06': 'Sub-checks `product`, `edits` (BFS, states hashed on (order, marker lists)), `surplus` (1-5 extra POPs on each triple in turn; added after a seeded change needing >= 3 surplus POPs was missed) and `totality`. Second-wave additions: every edit state is also encoded from a deep copy, and an AMR family (`:consist-of`, `:consist-of-of`) for the edits.',
    'C07': 'Sub-checks `strings`, `strings_block` (rotating block of the next length), `tokens` / `ttokens` (token DFS with dead-prefix pruning, one shard per 3-token prefix), `gmacro` / `tmacro` (macro tokens: whole nodes / whole triples, so that 3-triple conjunctions and multi-graph streams are reached), `deep`, `long` (unterminated quotes, escapes, symbols, comments of length 40/400/4000 - this is what exposes a backtracking-regex hang) and `unicode`. Wave 4: a `holes` sub-check fills one hole in six templates (after a concept, a role, a string, a symbol, a triple source, a triple target) with every string of length <= 4 over 14 characters of the token micro-grammars (`~ ^ _ [ \\ ] ` . , : -` and letters/digits).',
    'C08': 'As designed (three containers, two patterns). `Token.line` is deliberately not asserted (not part of the statement).',
    'C09': 'Complete product over a fixed 9-graph corpus (two graphs share their first metadata line) and 8 serialisations incl. joining with nothing, as the statement says ("with none"); streams are created with universal newlines like text-mode files. Wave 4: dump/load by file name also with a non-default encoding (UTF-16). File names are also given as `pathlib.Path`. The `compact` option of dump/dumps/encode varies with the sequence.',
    'C10': 'Reference relabelling from the docstring; three variable-name variants per tree (identity, a<->b swapped, names colliding with generated names) and alignment prefixes spelled like the variable (`a~a.3`) were added after two seeded changes were missed by the a,b,c-in-order naming of the family; a fourth variant uses names that do not start with a letter (`_2`, `_`, `1`).',
    'C11': 'Sub-checks `inverse` and `nocollapse`; table ambiguity and input collapsibility are decided by reference predicates written from the statement. Role and target alignments can now be equal (`:polarity~e.1 k~e.1`), and `nocollapse` also runs with a two-character top variable. Wave 4: a re-topped initial variant (the top is not the source of the first triple); a look-alike node whose collapse would put a constant in source position is not collapsible.',
    'C12': 'BFS over programs from five initial variants; a family of 4-node chains of reified nodes was added after a seeded change (surplus POPs after two nested dereifications) needed it.',
    'C13': 'Complete product; the reference follows `tests/test_model.py` for collision roles (an undefined X with X-of defined is read as the inverse of X-of, canonical form X-of-of). Wave 4: missing targets (None) in the tree clause; up to eight stacked inversions in the role clause.',
    'C14': 'As designed; on marker-less twins: totality, answer types, and every reported context must be unknown or an end of its triple. Wave 4: roles are validated (`has_role`) before decoding, and the model-role family is also decoded through `loads(text, model)`.',
    'C15': 'Sub-checks `queries` and `algebra` (three registers, 19 operations, reference ordered-set model with an explicit "unspecified" marker value for triples present in both operands). Wave 4: some triples of the second operand carry no marker entry.',
    'C16': 'Sub-checks `errors`, `decoded`, `tool` (in-process `main()`; 22 runs replayed in a real sub-process). Wave 4: the compliant corpus graph uses a model-defined `-of` role and an inverted re-entrancy; `--check` is also run together with `--triples`.',
    'C17': 'Sub-checks `purity`, `history`, `streams`, `processes`, `hashseeds`; the baseline of `history` and `hashseeds` is computed by a fresh sub-process (`pmc/props/c17_battery.py`). The battery has 46 calls (incl. `Model.reify/dereify/invert/deinvert/canonicalize` and the sort keys of two models) x 16 arguments (incl. a graph with an implicit top and one with the ambiguous `include-91`). Wave 4: in the `history` sub-check the client uses every documented in-place operation on the results of earlier calls; the command-line runs include combined sort keys in both orders.',
    'C18': 'Sub-checks `quote` and `atoms`; atom texts are restricted to what the Atom production can yield (a lone `"` or a text with blanks is not an atom). Wave 4: a combining mark (strings that are not in NFC).',
    'C19': 'Sub-checks `single`, `lists`, `decoded`; spacing variants are always compared with the reference recogniser and with the original list whenever the pieces cannot glue into other symbols (e.g. `a,^y`). Wave 4: a role given without its colon must come back with it. Decoded triple lists also go through `PENMANCodec.format_triples/parse_triples`.',
    'C20': 'Sub-checks `options` (2688 option sets x 5 models x 6 streams), `formats`, `channels`, `subprocess`. The "decodes to the same graphs" clause is asserted only for streams that are well-formed under the selected model (the statement says "well-formed input"). Wave 4: combined rearrange keys in non-table order, `--indent 0 --compact`, roles with five and six stacked inversions (2 688 option sets, 10 formatting options). `channels` also reads two UTF-16 files announced with `--encoding`.',
}


def asbuilt(cid):
    ev = {}
    p = os.path.join(VERIF, 'evidence', cid + '.json')
    if os.path.exists(p):
        ev = json.load(open(p))
    lines = ['**As built.** ' + NOTES[cid]]
    if ev:
        cov = ev['coverage']
        lines.append('')
        lines.append(f'Last committed evidence ({ev["tier"]}, seed {ev["seed"]}): {cov["states"]:,} cases, {cov["transitions"]:,} real executions checked, '
                     f'{cov["traces_validated_against_impl"]:,} reference predictions compared, {cov["distinct_observed_outcomes"]:,} distinct outcomes, '
                     f'{ev["wall_s"]} s wall; exhaustive within bounds: {cov["exhaustive"]}.')
        for sub, d in cov.get('sub_checks', {}).items():
            b = d.get('bounds') or ''
            lines.append(f'  * `{sub}`: {d["cases"]:,} cases' + (f' - {b}' if b else ''))
    return '\n'.join(lines)


def seeded_table():
    rows = []
    for d in sorted(glob.glob(os.path.join(VERIF, 'seeded', '*'))):
        mp = os.path.join(d, 'meta.json')
        if not os.path.exists(mp):
            continue
        m = json.load(open(mp))
        name = os.path.basename(d)
        det = m.get('detected_by', {})
        cells = []
        for prop, r in det.items():
            cells.append(f'{prop} {r["tier"]}: ' + ('**caught** - ' + r['first_violation'].split(' / ')[0][:110] if r['exit'] == 1 else f'missed (exit {r["exit"]})'))
        rows.append(f'| {name} | {m["summary"][:160].replace("|", "/")} | {m.get("needs", "")[:140].replace("|", "/")} | {"; ".join(cells)} |')
    head = '| id | change | needs | result |\n|---|---|---|---|\n'
    return head + '\n'.join(rows)


def mutants_summary():
    p = os.path.join(VERIF, 'mutants', 'RESULTS.json')
    if not os.path.exists(p):
        return ''
    r = json.load(open(p))
    rows = ['Author-written mutants (`mutants/RESULTS.json`):', '', '| mutant | property | outcome |', '|---|---|---|']
    for name in sorted(r):
        v = r[name]
        rows.append(f'| {name} | {v["property"]} | {v["status"][:170]} |')
    return '\n'.join(rows)


def reverts_table():
    p = os.path.join(VERIF, 'mutants', 'REVERTS.json')
    if not os.path.exists(p):
        return ''
    r = json.load(open(p))
    rows = ['| property | repair reverted | result of the quick check | first violation |', '|---|---|---|---|']
    for k in sorted(r):
        v = r[k]
        rows.append(f'| {v["property"]} | `{v["commit"]}` {v["what"][:90].replace("|", "/")} | {v["status"]} | {v.get("first_violation", "")[:140].replace("|", "/")} |')
    return '\n'.join(rows)


def main():
    p = os.path.join(VERIF, 'DESIGN.md')
    s = open(p, encoding='utf-8').read()
    for cid in NOTES:
        a, b = f'<!-- ASBUILT:{cid} -->', f'<!-- /ASBUILT:{cid} -->'
        block = a + '\n' + asbuilt(cid) + '\n' + b
        if a in s:
            s = re.sub(re.escape(a) + '.*?' + re.escape(b), lambda m: block, s, flags=re.S)
        else:
            # insert before the next heading after "### Cnn"
            i = s.index(f'### {cid} ')
            m = re.search(r'\n##+ ', s[i + 5:])
            j = i + 5 + m.start()
            s = s[:j].rstrip('\n') + '\n\n' + block + '\n\n' + s[j:].lstrip('\n')
    a, b = '<!-- SEEDED -->', '<!-- /SEEDED -->'
    if a in s:
        s = re.sub(re.escape(a) + '.*?' + re.escape(b), lambda m: a + '\n' + seeded_table() + '\n\n' + mutants_summary() + '\n' + b, s, flags=re.S)
    a, b = '<!-- REVERTS -->', '<!-- /REVERTS -->'
    if a in s:
        s = re.sub(re.escape(a) + '.*?' + re.escape(b), lambda m: a + '\n' + reverts_table() + '\n' + b, s, flags=re.S)
    open(p, 'w', encoding='utf-8').write(s)


if __name__ == '__main__':
    main()
