#!/bin/sh
# usage: tools/try_patch.sh <patch.diff | revert:<commit>> <PROP> [tier] [--tests]
# Applies the change to a scratch worktree of /repo HEAD (outside /repo and /verif), optionally runs the
# baseline suite there, runs ./check PROP with VERIF_REPO pointing at it, removes the worktree.
VDIR=$(cd "$(dirname "$0")/.." && pwd)
P="$1"; PROP="$2"; TIER="${3:-quick}"; TESTS="$4"
D=$(mktemp -d /tmp/wt_XXXXXX); rmdir "$D"
git -C /repo worktree add -q --detach "$D" HEAD || exit 9
cd "$D"
case "$P" in
  revert:*) git revert --no-commit "${P#revert:}" >/dev/null 2>&1 || { echo "revert failed"; } ;;
  *) git apply "$P" || { echo "APPLY FAILED"; cd /; git -C /repo worktree remove --force "$D"; exit 9; } ;;
esac
if [ -n "$TESTS" ]; then
  /venv/bin/python -m pytest -q -p no:cacheprovider -x tests 2>&1 | tail -1
fi
cd "$VDIR"
VERIF_REPO="$D" ./check "$PROP" --tier "$TIER" 2>&1 | grep -v "^    " | head -${LINES_MAX:-14}
RC=$?
git -C /repo worktree remove --force "$D"
