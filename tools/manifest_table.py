"""Table from which tools/gen_manifest.py writes MANIFEST.json."""

_PENDING = 'check not built yet in this round (planned: bounded-exhaustive exploration, DESIGN.md section 4); not claimed until it runs clean'

CHECKS = {
    'C08': {
        'technique': 'bounded-exhaustive enumeration of all input strings (explicit-state, real lexer) against a reference scanner',
        'text': 'Every string up to length 5 (quick) / 6 (thorough) over a 23-character alphabet holding every delimiter, all six ASCII blanks and four non-ASCII separators, plus longer strings over sub-alphabets, is lexed by the real lexer with both patterns and in three containers; each run is checked against a reference-free tiling invariant and token-by-token against a character-loop scanner written from docs/notation.rst. Exhaustive within the stated bounds, nothing sampled.',
        'note': 'Trusted: pmc/ref/lexer.py as transcription of docs/notation.rst; small-scope hypothesis for longer strings and other characters; class of a quoted span containing raw VT/FF is not asserted.',
        'design_ref': 'DESIGN.md section 4 C08',
    },
    'C07': {
        'technique': 'bounded-exhaustive enumeration of all input strings and token sequences (explicit-state, real parser) against a reference LL(1) recogniser',
        'text': 'Every string up to length 5 (quick) / 6 (thorough) over a 16-character delimiter alphabet, every token sequence up to length 8/9 (11 graph tokens) and 8/10 (13 triple-notation tokens) with dead-prefix pruning, macro-token sequences, a deterministic nesting family to depth 200, a long-token family and a Unicode substitution family are run through parse, iterparse (two containers) and parse_triples; outcome class, trees/triples and the reported (line, column) are compared with an independent recogniser on every input, and a process-level watchdog turns a hang (even inside C code) into a reported violation.',
        'note': 'Trusted: pmc/ref/grammar.py + pmc/ref/lexer.py as transcription of docs/notation.rst and docs/serialization.rst; small-scope hypothesis beyond the bounds; position with zero tokens and metadata segmentation for ":::"/duplicate keys are not asserted.',
        'design_ref': 'DESIGN.md section 4 C07',
    },
}

NOT_APPLICABLE = {k: _PENDING for k in
                  ['C01', 'C02', 'C03', 'C04', 'C05', 'C06', 'C09', 'C10', 'C11', 'C12', 'C13', 'C14', 'C15', 'C16', 'C17', 'C18', 'C19', 'C20']}
