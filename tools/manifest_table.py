"""Table from which tools/gen_manifest.py writes MANIFEST.json."""

_PENDING = 'check not built yet in this round (planned: bounded-exhaustive exploration, DESIGN.md section 4); not claimed until it runs clean'

CHECKS = {
    'C08': {
        'technique': 'bounded-exhaustive enumeration of all input strings (explicit-state, real lexer) against a reference scanner',
        'text': 'Every string up to length 5 (quick) / 6 (thorough) over a 23-character alphabet holding every delimiter, all six ASCII blanks and four non-ASCII separators, plus longer strings over sub-alphabets, is lexed by the real lexer with both patterns and in three containers; each run is checked against a reference-free tiling invariant and token-by-token against a character-loop scanner written from docs/notation.rst. Exhaustive within the stated bounds, nothing sampled.',
        'note': 'Trusted: pmc/ref/lexer.py as transcription of docs/notation.rst; small-scope hypothesis for longer strings and other characters; class of a quoted span containing raw VT/FF is not asserted.',
        'design_ref': 'DESIGN.md section 4 C08',
    },
    'C07': {
        'technique': 'bounded-exhaustive enumeration of all input strings and token sequences (explicit-state, real parser) against a reference LL(1) recogniser',
        'text': 'Every string up to length 5 (quick) / 6 (thorough) over a 16-character delimiter alphabet, every token sequence up to length 8/9 (11 graph tokens) and 8/10 (13 triple-notation tokens) with dead-prefix pruning, macro-token sequences, a deterministic nesting family to depth 200, a long-token family and a Unicode substitution family are run through parse, iterparse (two containers) and parse_triples; outcome class, trees/triples and the reported (line, column) are compared with an independent recogniser on every input, and a process-level watchdog turns a hang (even inside C code) into a reported violation. Six templates with one hole (after a concept, role, string, symbol, triple source, triple target) are filled with every string up to length 4/5 over 14 characters of the token micro-grammars.',
        'note': 'Trusted: pmc/ref/grammar.py + pmc/ref/lexer.py as transcription of docs/notation.rst and docs/serialization.rst; small-scope hypothesis beyond the bounds; position with zero tokens and metadata segmentation for ":::"/duplicate keys are not asserted.',
        'design_ref': 'DESIGN.md section 4 C07',
    },
    'C01': {
        'technique': 'bounded-exhaustive enumeration of trees x formatting options and of all accepted input strings (explicit-state, real formatter/parser)',
        'text': 'Every decoration of every tree shape within (3 nodes, 2 branches) over a wide alphabet, (3,3)/(3,4) over a mid alphabet and (4,4)/(4,5) over a narrow one (including empty nodes, missing concepts/targets, anonymous roles, strings with delimiters and escapes, alignments everywhere), crossed with 8 metadata variants (incl. TAB, NBSP, unsorted keys), 5 indent values and both compact settings, is formatted and parsed back by the real code; every accepted string up to length 5/6 over 16 characters and every accepted token sequence up to length 7/8 is checked to be a fixed point of parse-then-format. Token sequences of the 10 texts are compared with the reference lexer.',
        'note': 'Trusted: pmc/ref/lexer.py for the whitespace-only clause; small-scope hypothesis beyond the bounds; non-str atoms and metadata that a comment cannot express are outside the statement.',
        'design_ref': 'DESIGN.md section 4 C01',
    },
    'C02': {
        'technique': 'bounded-exhaustive enumeration of well-formed trees x models, round trip through the real interpret/configure and decode/encode',
        'text': 'Every well-formed tree (precondition decided by the reference interpretation) within the stated node/branch/depth bounds over wide, mid, narrow and model-specific alphabets is interpreted and configured back under DEFAULT, AMR, NOOP, MINI and 16 TINY role tables; the resulting tree must equal the original with empty concept slots dropped, metadata kept, and encode(decode(text)) must be the normal-form text.',
        'note': 'Trusted: pmc/ref/interp.py and pmc/ref/roles.py for the well-formedness precondition only (the oracle itself is tree equality); small-scope hypothesis.',
        'design_ref': 'DESIGN.md section 4 C02',
    },
    'C04': {
        'technique': 'bounded-exhaustive enumeration of (also ill-formed) trees x models against a reference interpretation written from the docs',
        'text': 'Every decoration of every tree shape within the bounds, including duplicate definitions, duplicate triples, over-inverted roles, empty nodes and alignments on every position, is interpreted by the real code under DEFAULT, AMR, NOOP and MINI and compared triple-by-triple (order, top, variables, both alignment maps) with an independent reference interpretation; a text-level family with non-ASCII separators, VT, FF and FS inside tokens is decoded end to end. A model-role family is additionally decoded through eight public entry points (decode, codec, loads, iterdecode, load from stream / open file / file name), each compared with the reference reading.',
        'note': 'Trusted: pmc/ref/interp.py, pmc/ref/roles.py as transcription of docs/notation.rst and docs/structures.rst; alignment of duplicated triples not asserted; small-scope hypothesis.',
        'design_ref': 'DESIGN.md section 4 C04',
    },
    'C14': {
        'technique': 'bounded-exhaustive enumeration of well-formed trees x models; diagnostics compared with the side table of the reference interpretation',
        'text': 'For every well-formed tree within the bounds the real node_contexts, get_pushed_variable and appears_inverted are evaluated on the decoded graph and compared, triple by triple, with the node that wrote the triple, the nested node its branch opened and the written-inverted flag recorded by the reference interpretation; the same triple lists are re-checked as marker-less graphs (no exception, unknown/boolean answers).',
        'note': 'Trusted: pmc/ref/interp.py; on marker-less graphs only totality and answer types are asserted; small-scope hypothesis.',
        'design_ref': 'DESIGN.md section 4 C14',
    },
    'C10': {
        'technique': 'bounded-exhaustive enumeration of trees x name formats against a reference relabelling, plus commutation with the real interpret',
        'text': 'Every decoration of every tree shape within the bounds (concepts absent / symbol / spelled like a variable / string / _p / number / non-ASCII / aligned; plain and aligned re-entrancies; constants spelled like variables or like generated names; empty nodes) is relabelled by the real Tree.reset_variables under six formats and compared with a reference first-fit bijection applied at definitions and references only; when no constant equals a generated name, interpreting the relabelled tree must equal renaming the interpretation of the original (triples, top, both alignment maps, layout markers).',
        'note': 'Trusted: the reference relabelling in pmc/props/c10.py (from the docstring of reset_variables); formats without an index are outside the statement; small-scope hypothesis.',
        'design_ref': 'DESIGN.md section 4 C10',
    },
    'C13': {
        'technique': 'complete enumeration of the role/model product and bounded-exhaustive trees; algebraic laws plus a reference role algebra',
        'text': 'All roles base x "-of"^0..4 (with/without colon) over literal, pattern, "-of"-defined, normalised, undefined, empty and collision bases are pushed through the real canonicalize_role, has_role, is_role_inverted, invert_role, invert, deinvert and canonicalize of DEFAULT, AMR, NOOP, MINI and every table of the TINY family; each law of the statement is evaluated on every pair and the results are compared with an independent role algebra. canonicalize_roles is run on every tree of TREE(3,3,2) over such roles with alignments: only role text may change, alignments stay, idempotent, argument untouched.',
        'note': 'Trusted: pmc/ref/roles.py; chained/non-canonical normalisation tables and the involution law on collision roles are excluded as unsatisfiable (DESIGN.md 3.1).',
        'design_ref': 'DESIGN.md section 4 C13',
    },
    'C03': {
        'technique': 'bounded-exhaustive enumeration of graphs x all triple orders x all tops x models, round trip through the real encode/decode',
        'text': 'Every connected well-formed graph of GRAPH(V<=3, E<=3) over wide, mid, narrow and AMR role/constant pools (constants 0, 0.0, -1, 1.5, "", None, strings; concepts spelled like variables; inverted roles on edges and attributes) is encoded by the real code from every permutation of its triple list (or every order within two adjacent transpositions for the largest size) and from every variable as top, decoded again, and compared by content (one model deinversion, constants by written form, edge/attribute status). The same is done for graphs that carry the faithful markers of every well-formed tree of a family, permuted.',
        'note': 'Trusted: pmc/ref/interp.py content normal form and pmc/ref/roles.py; collision roles and NaN are outside the pools; small-scope hypothesis.',
        'design_ref': 'DESIGN.md section 4 C03',
    },
    'C06': {
        'technique': 'explicit-state search over marker-edit histories (BFS with state hashing) plus complete marker products and complete enumeration of short triple lists, on the real encoder',
        'text': 'Three exhaustive explorations of the real configure/encode: (i) the complete product of marker assignments (Push(v) for any variable or none, 0-2 POPs, per triple) over orderings and tops of small connected graphs; (ii) breadth-first search over edit histories (drop a marker, add Push(v), add POP, swap two marker lists, transpose adjacent triples) up to 1-3 edits from the faithful marking of every well-formed tree of three families, states de-duplicated on (order, marker lists), every state encoded from every top and decoded back; (iii) every triple list up to length 3/4 over 2 sources, 4 roles, 4 targets with every requested top: result is text or LayoutError, and LayoutError exactly when the reference connectivity says so. A watchdog reports non-termination.',
        'note': 'Trusted: pmc/ref/interp.py (content, weak connectivity); marker alphabet Push/POP only; small-scope hypothesis on graph size and edit depth.',
        'design_ref': 'DESIGN.md section 4 C06',
    },
    'C05': {
        'technique': 'explicit-state search (BFS with state hashing) over re-layout operation histories on the real code, with owned randomness',
        'text': 'From the decoding (and the marker-less twin) of every well-formed tree of several families, all histories up to depth 2/3 of reconfigure(key), configure+rearrange(key, attributes_first) and encode(top=v)+decode are executed on the real code for keys none/original/alphanumeric/canonical/inverted-last/scripted-random under DEFAULT, AMR and MINI; in every reached state the graph content and top are compared with the initial ones, arguments are checked to be untouched, and every rearranged branch list is compared with the stable key order demanded by the statement (numeric suffixes numerically, inverted last, attributes first, concept first). random.random is replaced by scripted answer sequences. Initial variants include a deep copy, a marker-less twin, a hand-built graph with an implicit top and a graph stating one attribute twice.',
        'note': 'Trusted: pmc/ref/interp.py content, pmc/ref/roles.py, reference sort keys in pmc/props/c05.py; collision roles excluded; for random keys only invariants are asserted.',
        'design_ref': 'DESIGN.md section 4 C05',
    },
    'C18': {
        'technique': 'bounded-exhaustive enumeration of all strings / atom texts over small alphabets on the real quote/evaluate/type and lexer',
        'text': 'Every string up to length 4/5 over 21 characters (quotes, backslash, controls, NUL, line separators, delimiters, astral) is quoted by the real code and the result is required to be exactly one STRING token for both the real lexer and the reference lexer, alone and inside a graph, to evaluate back to the original and to be typed STRING; every atom text up to length 5/6 over 21/15 characters plus a word list (NaN, Infinity, true, null, hex, full-width digits, ...) is evaluated and typed: total up to ConstantError, numbers exactly for RFC 8259 number syntax (hand-written recogniser), None exactly for empty, never bool/NaN/container, type consistent with the value.',
        'note': 'Trusted: the RFC 8259 number recogniser and pmc/ref/lexer.py; atom texts are restricted to what the Atom production can yield; small-scope hypothesis.',
        'design_ref': 'DESIGN.md section 4 C18',
    },
    'C19': {
        'technique': 'bounded-exhaustive enumeration of triple lists, string contents and spacing variants on the real format_triples/parse_triples against a reference recogniser',
        'text': 'All single triples over 3 sources x 4 roles x (symbol targets incl. "1,000", ",x", "^", "^y" and every quoted string up to length 3/4 over 15 characters), all lists of 2-3(4) triples over a reduced set, and the triples of every decoded tree of a family are written in both line styles and parsed back by the real code; every combination of the four comma spellings and six conjunction-sign spellings (and mixed styles) is parsed and compared with the reference recogniser, and with the original list whenever the pieces cannot glue into other symbols. A role given without its colon must come back with it.',
        'note': 'Trusted: pmc/ref/grammar.py parse_triples and pmc/ref/lexer.py; comma-containing sources, None targets and the anonymous role are not expressible and excluded.',
        'design_ref': 'DESIGN.md section 4 C19',
    },
    'C15': {
        'technique': 'complete enumeration of triple lists x tops for the query laws; explicit-state search over set-operation histories on three registers against a reference ordered-set model',
        'text': 'Every triple list up to length 3/4 over 24 triples (duplicates, concept spelled like a variable, None targets, roles with and without colon) with every explicit top in {unset, a, b, z} is given to the real Graph and all query laws of the statement are evaluated (partition in order, edge definition, filters as sub-lists, implicit top, refused tops, re-entrancy counts). For the algebra, all histories up to depth 1-3 of |, |=, -, -= and top assignment over three registers, starting from every pair of small marked graphs, are executed on the real code; after every step the target register is compared with a reference ordered-set model (order, top rule, marker carry-over by value), all other registers with their snapshot, and the query laws are re-evaluated.',
        'note': 'Trusted: the reference model in pmc/props/c15.py; duplicate multiplicity inside one operand and markers of triples present in both operands are unspecified and not asserted.',
        'design_ref': 'DESIGN.md section 4 C15',
    },
    'C16': {
        'technique': 'complete enumeration of triple lists x tops x models against reference validity/reachability; complete enumeration of tool input sequences (in-process main, sub-process conformance)',
        'text': 'Every triple list up to length 3/4 over model-specific triples (defined, singly and doubly inverted, "-of"-defined, undefined roles; concepts spelled like variables) with every top in {unset, a, b, c, z} is passed to the real Model.errors of AMR, MINI and DEFAULT and the report is compared exactly (per triple and for the graph-level key) with the reference role algebra and reference weak connectivity; every tree of a family is decoded and must receive exactly its role errors. The tool is run in-process with --amr --check on every sequence of 1-3(4) files or stdin, each holding 0-2 graphs of three kinds, with and without --quiet: exit status non-zero exactly when some graph has an error, error-N metadata exactly the offending triples, compliant graphs clean; a fixed subset is replayed in a real sub-process and must agree with the in-process harness. --check is also run together with --triples.',
        'note': 'Trusted: pmc/ref/roles.py, pmc/ref/interp.py weak connectivity, the in-process harness pmc/engine/cli.py (validated against a real sub-process on a subset).',
        'design_ref': 'DESIGN.md section 4 C16',
    },
    'C11': {
        'technique': 'bounded-exhaustive enumeration of well-formed graphs x models; reify/dereify laws and inverse checked on the real transforms, preconditions decided by a reference',
        'text': 'For the decoding (and marker-less twin) of every well-formed tree within the bounds over reifiable AMR, MINI and custom-table roles - attributes, inverted edges, re-entrancies, aligned roles and targets, pre-existing variables named _ and _2 (three renamings) - the real reify_edges is checked against the table (no reifiable role left, exactly one fresh node per reifiable triple, replaced in place by the table\'s three triples, top and other triples kept), and the real dereify_edges must restore triples, top, both alignment maps and, for decoded graphs, the identical encoded text. A second family with reified-looking nodes checks that nodes with another relation, the top, or nodes referenced elsewhere are never collapsed.',
        'note': 'Trusted: the table-driven reference in pmc/props/c11.py, pmc/ref/interp.py; ambiguous table entries (:subset/:superset) and inputs with collapsible nodes are outside the statement.',
        'design_ref': 'DESIGN.md section 4 C11',
    },
    'C12': {
        'technique': 'explicit-state search (BFS with state hashing) over transformation programs on the real transforms',
        'text': 'From five initial variants (decoded, marker-less, one marker list deleted, explicit other top, attribute appended) of every well-formed tree of several families, all programs up to length 2-4 over reify_edges, dereify_edges, reify_attributes and indicate_branches (at most once) are executed on the real code under AMR, MINI and DEFAULT; after every step: no exception, argument untouched, same top, every source has a node, the graph is connected, it encodes and decodes to itself, and the specific laws of reify_attributes (no attribute left, contraction restores the triples) and indicate_branches (one top-role triple per nested node, removal restores the triples) hold.',
        'note': 'Trusted: pmc/ref/interp.py content and connectivity; the nested-node count clause is asserted on faithfully marked (decoded) graphs only; small-scope hypothesis on graph size and program length.',
        'design_ref': 'DESIGN.md section 4 C12',
    },
    'C09': {
        'technique': 'complete enumeration of graph sequences x serialisations x terminators x containers on the real dump/load family',
        'text': 'Every sequence of 0-3 (thorough 0-4) graphs from an 8-graph corpus (multi-key metadata lines, two graphs sharing their first metadata line, a value ending in #, empty values, values and string constants holding ; ( ) " # U+2028 U+0085 FF VT U+001C) is serialised by the real dumps, dump (stream and real file, over stale content, list and iterator arguments) and by manual joins with blank line / newline / space / nothing, under indent -1 / None / 0, rewritten with LF, CRLF and CR terminators, and loaded back through six containers (str, lines, lines with terminators, text stream, file name, open file) by loads/load/iterdecode and iterparse; all must yield the original sequence (triples, top, marker lists, metadata) and the original trees; the expectation for every corpus graph comes from the reference lexer, grammar and interpretation, not from penman.',
        'note': 'Trusted: nothing beyond equality; the corpus is fixed, the framing product is complete; text streams use universal newlines as text-mode files do.',
        'design_ref': 'DESIGN.md section 4 C09',
    },
    'C17': {
        'technique': 'exhaustive exploration of call histories, stream interleavings, process pairs and hash-seed permutations on the real library (owned environment)',
        'text': 'A battery of 51 public calls x 16 arguments is explored: (purity) order-preserving deep snapshots of all arguments before and after every call, and again after every documented in-place operation has been applied to the result; (history) every ordered pair - and triples - of calls, on shared argument objects, must end in the result the last call gives on its own in a forked child of a fresh interpreter (and the whole battery run forward and in reverse order must agree with that); (streams) every interleaving of next() over 2-3 lazy iterdecode/iterparse generators; (processes) every producer/consumer placement in {parent, fork worker, spawn worker}^2 for three pipelines with graphs travelling by pickle; (hash seeds) the whole battery plus six command-line runs in sub-processes under PYTHONHASHSEED 0..63 (512), byte-identical, with the witnessed iteration orders of 3-element probe sets reported.',
        'note': 'Trusted: the canonical rendering in pmc/props/c17_battery.py; the corpus and battery are fixed; "all hash seeds" is approximated by all permutations of 3-element probe sets.',
        'design_ref': 'DESIGN.md section 4 C17',
    },
    'C20': {
        'technique': 'complete enumeration of the option space x models x streams on the real command (in-process main, sub-process conformance) against the library pipeline',
        'text': 'All 2688 normalisation option sets (every subset of the five flags x every rearrange key incl. combined and random x every reconfigure key x variable formats) x 5 models (default, --amr, --noop, two --model files, one with its own top role) x 6 input streams (metadata, alignments, inverted and over-inverted roles, reifiable and reified relations, several graphs, irregular spacing) with the formatting option rotating (thorough: all 10), every formatting option x every flag subset, and stdin / 1-3 files are run through the real main(); stdout must be exactly the documented library pipeline composed from public calls, one graph out per graph in; option sets without --reconfigure/--indicate-branches/random keys must reproduce their own output byte for byte; without normalisation options well-formed input must decode to the same graphs. random.random is scripted identically on both sides; 36 runs are replayed in a real sub-process.',
        'note': 'Trusted: the library itself (pinned by C01-C19) and the in-process harness (validated against sub-processes); --check is covered by C16; the number of blank lines between graphs of different files is not asserted.',
        'design_ref': 'DESIGN.md section 4 C20',
    },
}

NOT_APPLICABLE = {}
