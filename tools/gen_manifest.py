#!/venv/bin/python
"""Regenerate /verif/MANIFEST.json from the table below (keeps it schema-valid)."""
import json
import os

VERIF = os.path.dirname(os.path.dirname(os.path.abspath(__file__)))

# id -> (technique, level text, level note, design ref)
CHECKS = {}
NOT_APPLICABLE = {}


def load():
    import importlib.util
    spec = importlib.util.spec_from_file_location('manifest_table', os.path.join(VERIF, 'tools', 'manifest_table.py'))
    m = importlib.util.module_from_spec(spec)
    spec.loader.exec_module(m)
    return m.CHECKS, m.NOT_APPLICABLE


def main():
    checks, na = load()
    props = [json.loads(l) for l in open(os.path.join(VERIF, 'properties.jsonl'))]
    ids = [p['id'] for p in props]
    assert set(checks) | set(na) == set(ids), (set(ids) - set(checks) - set(na))
    assert not (set(checks) & set(na))
    man = {
        'version': 1,
        'setup_cmd': '/venv/bin/python -c "import sys; sys.path.insert(0, \'/verif\'); import pmc.engine.core"',
        'hooks': {
            'guard': 'PENMAN_VERIF',
            'enable': 'no source hooks: the checks import penman from /repo (put first on sys.path) and drive public API, module attributes and environment variables only',
            'baseline_off_cmd': 'cd /repo && /venv/bin/python -m pytest -ra -q -p no:cacheprovider --timeout=900 --continue-on-collection-errors',
            'source_commits': [],
            'add_only': True,
        },
        'engines': [
            {'name': 'pmc', 'path': 'pmc/engine/core.py', 'serves_properties': sorted(checks),
             'kind_free_text': 'hand-written bounded-exhaustive / explicit-state explorer over the real penman code with reference models in pmc/ref as oracles (DESIGN.md section 2)'},
        ],
        'checks': [],
        'not_applicable': [{'property_id': k, 'reason': v} for k, v in sorted(na.items())],
        'notes': 'All checks: ./check CNN --tier quick|thorough; replay: ./check CNN --replay FILE. Known findings in KNOWN_FINDINGS.txt.',
    }
    for cid in ids:
        if cid not in checks:
            continue
        c = checks[cid]
        man['checks'].append({
            'property_id': cid,
            'quick_cmd': f'./check {cid} --tier quick',
            'thorough_cmd': f'./check {cid} --tier thorough',
            'evidence_file': f'/verif/evidence/{cid}.json',
            'replay_cmd_template': f'./check {cid} --replay {{path}}',
            'engine': 'pmc',
            'level_claimed': {'category': 'model_checking', 'text': c['text'], 'design_ref': c['design_ref']},
            'level_note': c['note'],
            'technique': c['technique'],
        })
    with open(os.path.join(VERIF, 'MANIFEST.json'), 'w') as fh:
        json.dump(man, fh, indent=1)
        fh.write('\n')
    import subprocess
    r = subprocess.run(['python3-vt', '-c', 'import json,jsonschema,sys; jsonschema.validate(json.load(open("/verif/MANIFEST.json")), json.load(open("/root/.vp/MANIFEST.schema.json"))); print("MANIFEST valid:", len(json.load(open("/verif/MANIFEST.json"))["checks"]), "checks")'])
    return r.returncode


if __name__ == '__main__':
    raise SystemExit(main())
